// Package explore is a deviation-bounded, stateless, replay-based depth-first
// explorer over vrt choice points, with static sharding across worker
// processes, iterative bounding and a wall-clock budget.
package explore

import (
	"encoding/json"
	"fmt"
	"hash/fnv"
	"os"
	"path/filepath"
	"sort"
	"time"

	"verif/vrt"
)

// Finding is the verdict of an oracle on one execution (nil = property held).
type Finding struct {
	Class string // semantic class, matched against known_findings.json
	Msg   string
}

// Unit is one closed scenario: a harness body plus its oracle.
type Unit struct {
	Name  string
	Bound int // maximum total deviation cost explored
	Opt   vrt.Options
	// Body runs one execution on fresh state. It must reset every
	// observation it shares with Check.
	Body func()
	// Check judges the execution that just ran.
	Check func(res *vrt.Result) *Finding
	// Sig returns an outcome signature of the execution that just ran
	// (used only for coverage statistics). Optional.
	Sig func() string
	// Describe returns a human-readable sample of the execution that just ran. Optional.
	Describe func() any
	// IsolatedOnly units are never explored in-process: they exist to be run by
	// name in a memory-limited sub-process (see checks.RunIsolated).
	IsolatedOnly bool
}

// Violation is one violating execution.
type Violation struct {
	Unit    string `json:"unit"`
	Class   string `json:"class"`
	Msg     string `json:"msg"`
	Choices []int  `json:"choices"`
	Cost    int    `json:"cost"`
	Replay  string `json:"replay,omitempty"`
}

// Stats is what one worker reports.
type Stats struct {
	Units          int              `json:"units"`
	Executions     int64            `json:"executions"`
	NonTrivial     int64            `json:"nontrivial"`
	Points         int64            `json:"choice_points"`
	Steps          int64            `json:"steps"`
	MaxPoints      int              `json:"max_points"`
	MaxThreads     int              `json:"max_threads"`
	Outcomes       map[string]int64 `json:"outcomes"`
	ByCost         map[int]int64    `json:"by_cost"`
	ClassCounts    map[string]int64 `json:"class_counts"`
	Violations     []Violation      `json:"violations"`
	Samples        []any            `json:"samples"`
	BoundTarget    int              `json:"bound_target"`
	BoundCompleted int              `json:"bound_completed"` // -1: not even bound 0 completed
	TimedOut       bool             `json:"timed_out"`
	DetChecks      int              `json:"determinism_checks"`
	HarnessErrors  []string         `json:"harness_errors"`
	Extra          map[string]int64 `json:"extra"`
}

// Runner drives a list of units for one shard.
type Runner struct {
	Shard, NShards int
	Deadline       time.Time
	ReplayDir      string // where violating schedules are written
	Property       string
	Stats          Stats
	MaxViolPerClass int

	ctr       int64 // subtree ownership counter (per unit, per pass)
	unitIdx   int
	perClass  map[string]int
	nsamples  int
}

func NewRunner(prop string, shard, nshards int, deadline time.Time, replayDir string) *Runner {
	r := &Runner{Shard: shard, NShards: nshards, Deadline: deadline, ReplayDir: replayDir, Property: prop,
		MaxViolPerClass: 3, perClass: map[string]int{}}
	r.Stats.Outcomes = map[string]int64{}
	r.Stats.ByCost = map[int]int64{}
	r.Stats.ClassCounts = map[string]int64{}
	r.Stats.Extra = map[string]int64{}
	r.Stats.BoundCompleted = -1
	return r
}

type replay struct {
	prefix   []int
	pos      int
	diverged string
}

func (r *replay) Pick(p *vrt.Point) int {
	i := r.pos
	r.pos++
	if i < len(r.prefix) {
		c := r.prefix[i]
		if c >= p.N {
			if r.diverged == "" {
				r.diverged = fmt.Sprintf("choice %d of %d at point %d (%s)", c, p.N, i, p.Label)
			}
			return 0
		}
		return c
	}
	return 0
}

// RunOnce executes u with the given choice prefix (defaults afterwards).
func RunOnce(u *Unit, prefix []int) (*vrt.Result, string) {
	st := &replay{prefix: prefix}
	res := vrt.Run(st, u.Opt, u.Body)
	return res, st.diverged
}

func (r *Runner) timeUp() bool {
	return !r.Deadline.IsZero() && time.Now().After(r.Deadline)
}

func (r *Runner) harnessErr(format string, a ...any) {
	if len(r.Stats.HarnessErrors) < 20 {
		r.Stats.HarnessErrors = append(r.Stats.HarnessErrors, fmt.Sprintf(format, a...))
	}
}

// Explore runs every unit under iterative bounding 0..max(Bound).
func (r *Runner) Explore(all []*Unit) {
	var units []*Unit
	for _, u := range all {
		if !u.IsolatedOnly {
			units = append(units, u)
		}
	}
	r.Stats.Units += len(units)
	maxB := 0
	for _, u := range units {
		if u.Bound > maxB {
			maxB = u.Bound
		}
	}
	if maxB > r.Stats.BoundTarget {
		r.Stats.BoundTarget = maxB
	}
	// determinism self-check: the default execution of every unit, twice
	for i, u := range units {
		if i%r.NShards != r.Shard {
			continue
		}
		if r.timeUp() {
			break
		}
		a, _ := RunOnce(u, nil)
		sa := ""
		if u.Sig != nil {
			sa = u.Sig()
		}
		b, _ := RunOnce(u, nil)
		sb := ""
		if u.Sig != nil {
			sb = u.Sig()
		}
		r.Stats.DetChecks++
		if a.SchedHash != b.SchedHash || sa != sb || len(a.Points) != len(b.Points) {
			r.harnessErr("unit %s: default execution is not deterministic (%x/%x, %q/%q)", u.Name, a.SchedHash, b.SchedHash, sa, sb)
		}
	}
	for d := 0; d <= maxB; d++ {
		complete := true
		for i, u := range units {
			if u.Bound < d {
				continue
			}
			if r.timeUp() {
				complete = false
				break
			}
			r.unitIdx = i
			r.ctr = 0
			if !r.explore(u, nil, 0, 0, d) {
				complete = false
				break
			}
		}
		if !complete {
			r.Stats.TimedOut = true
			return
		}
		r.Stats.BoundCompleted = d
	}
}

// explore visits the subtree below prefix. Only executions whose cost equals
// target are counted and checked in this pass (lower costs were counted in
// earlier passes). Returns false when the time budget ran out.
func (r *Runner) explore(u *Unit, prefix []int, used, depth, target int) bool {
	if r.timeUp() {
		return false
	}
	shardDepth := 2
	if target < shardDepth {
		shardDepth = target
	}
	mine := true
	if r.NShards > 1 {
		if depth == 0 {
			mine = r.unitIdx%r.NShards == r.Shard
		} else if depth <= shardDepth {
			r.ctr++
			mine = int(r.ctr%int64(r.NShards)) == r.Shard
			if depth == shardDepth && !mine {
				return true // whole subtree belongs to another shard
			}
		}
	}
	// Nodes with used<target are interior: run only to enumerate children.
	if used == target && !mine {
		return true
	}
	res, div := RunOnce(u, prefix)
	if div != "" {
		r.harnessErr("unit %s: replay diverged: %s", u.Name, div)
		return true
	}
	if used == target {
		r.account(u, res)
	}
	if used < target {
		for i := len(prefix); i < len(res.Points); i++ {
			p := &res.Points[i]
			for alt := 1; alt < p.N; alt++ {
				cost := used + int(p.Cost[alt])
				if cost > target {
					continue
				}
				np := make([]int, i+1)
				for j := 0; j < i; j++ {
					np[j] = res.Points[j].Chosen
				}
				np[i] = alt
				if !r.explore(u, np, cost, depth+1, target) {
					return false
				}
			}
		}
	} else {
		// used == target: only zero-cost alternatives extend this node within the pass
		for i := len(prefix); i < len(res.Points); i++ {
			p := &res.Points[i]
			for alt := 1; alt < p.N; alt++ {
				if p.Cost[alt] != 0 {
					continue
				}
				np := make([]int, i+1)
				for j := 0; j < i; j++ {
					np[j] = res.Points[j].Chosen
				}
				np[i] = alt
				// zero-cost children stay with the owner of this node
				if !r.exploreOwned(u, np, used, target) {
					return false
				}
			}
		}
	}
	return true
}

// exploreOwned explores zero-cost extensions below an owned node at cost==target.
func (r *Runner) exploreOwned(u *Unit, prefix []int, used, target int) bool {
	if r.timeUp() {
		return false
	}
	res, div := RunOnce(u, prefix)
	if div != "" {
		r.harnessErr("unit %s: replay diverged: %s", u.Name, div)
		return true
	}
	r.account(u, res)
	for i := len(prefix); i < len(res.Points); i++ {
		p := &res.Points[i]
		for alt := 1; alt < p.N; alt++ {
			if p.Cost[alt] != 0 {
				continue
			}
			np := make([]int, i+1)
			for j := 0; j < i; j++ {
				np[j] = res.Points[j].Chosen
			}
			np[i] = alt
			if !r.exploreOwned(u, np, used, target) {
				return false
			}
		}
	}
	return true
}

func choices(res *vrt.Result) []int {
	ch := make([]int, len(res.Points))
	for i, p := range res.Points {
		ch[i] = p.Chosen
	}
	// trailing defaults are implied
	n := len(ch)
	for n > 0 && ch[n-1] == 0 {
		n--
	}
	return ch[:n]
}

func (r *Runner) account(u *Unit, res *vrt.Result) {
	st := &r.Stats
	st.Executions++
	st.Points += int64(len(res.Points))
	st.Steps += int64(res.Steps)
	if len(res.Points) > st.MaxPoints {
		st.MaxPoints = len(res.Points)
	}
	if res.Threads > st.MaxThreads {
		st.MaxThreads = res.Threads
	}
	if res.NonDefault > 0 {
		st.NonTrivial++
	}
	st.ByCost[res.Cost]++
	if u.Sig != nil {
		sig := u.Sig()
		if _, ok := st.Outcomes[sig]; ok || len(st.Outcomes) < 4000 {
			st.Outcomes[sig]++
		} else {
			st.Outcomes["(other)"]++
		}
	}
	f := u.Check(res)
	if f == nil {
		if r.nsamples < 3 || (res.NonDefault > 0 && r.nsamples < 6) {
			r.nsamples++
			s := map[string]any{"unit": u.Name, "choices": choices(res), "cost": res.Cost, "steps": res.Steps, "threads": res.Threads}
			if u.Sig != nil {
				s["outcome"] = u.Sig()
			}
			if u.Describe != nil {
				s["detail"] = u.Describe()
			}
			st.Samples = append(st.Samples, s)
		}
		return
	}
	st.ClassCounts[f.Class]++
	key := f.Class
	if r.perClass[key] >= r.MaxViolPerClass {
		return
	}
	r.perClass[key]++
	ch := choices(res)
	// a violation is only believed if it reproduces
	res2, div := RunOnce(u, ch)
	f2 := u.Check(res2)
	st.DetChecks++
	if div != "" || f2 == nil || f2.Class != f.Class {
		got := "<none>"
		if f2 != nil {
			got = f2.Class
		}
		r.harnessErr("unit %s: violation %q did not reproduce on replay (got %s, div=%q)", u.Name, f.Class, got, div)
		return
	}
	v := Violation{Unit: u.Name, Class: f.Class, Msg: f.Msg, Choices: ch, Cost: res.Cost}
	if r.ReplayDir != "" {
		h := fnv.New64a()
		fmt.Fprintf(h, "%s|%s|%v", u.Name, f.Class, ch)
		name := filepath.Join(r.ReplayDir, fmt.Sprintf("%016x.json", h.Sum64()))
		os.MkdirAll(r.ReplayDir, 0o755)
		js, _ := json.MarshalIndent(map[string]any{"property": r.Property, "unit": u.Name, "class": f.Class,
			"msg": f.Msg, "choices": ch, "cost": res.Cost}, "", " ")
		if err := os.WriteFile(name, js, 0o644); err == nil {
			v.Replay = name
		}
	}
	st.Violations = append(st.Violations, v)
}

// Direct records the result of one directly enumerated case (no scheduler):
// used by pure input-space checks so that they share the reporting path.
func (r *Runner) Direct(unit string, nontrivial bool, sig string, f *Finding, sample func() any) {
	st := &r.Stats
	st.Executions++
	if nontrivial {
		st.NonTrivial++
	}
	if sig != "" {
		if _, ok := st.Outcomes[sig]; ok || len(st.Outcomes) < 4000 {
			st.Outcomes[sig]++
		} else {
			st.Outcomes["(other)"]++
		}
	}
	if f == nil {
		if sample != nil && (r.nsamples < 3 || (nontrivial && r.nsamples < 6)) {
			r.nsamples++
			st.Samples = append(st.Samples, sample())
		}
		return
	}
	st.ClassCounts[f.Class]++
	if r.perClass[f.Class] >= r.MaxViolPerClass {
		return
	}
	r.perClass[f.Class]++
	v := Violation{Unit: unit, Class: f.Class, Msg: f.Msg}
	if r.ReplayDir != "" {
		h := fnv.New64a()
		fmt.Fprintf(h, "%s|%s|%s", unit, f.Class, f.Msg)
		name := filepath.Join(r.ReplayDir, fmt.Sprintf("%016x.json", h.Sum64()))
		os.MkdirAll(r.ReplayDir, 0o755)
		var det any
		if sample != nil {
			det = sample()
		}
		js, _ := json.MarshalIndent(map[string]any{"property": r.Property, "unit": unit, "class": f.Class,
			"msg": f.Msg, "case": det}, "", " ")
		if err := os.WriteFile(name, js, 0o644); err == nil {
			v.Replay = name
		}
	}
	st.Violations = append(st.Violations, v)
}

// Owns reports whether directly enumerated work item i belongs to this shard.
func (r *Runner) Owns(i int) bool { return r.NShards <= 1 || i%r.NShards == r.Shard }

// TimeUp reports whether the budget is exhausted (and records it).
func (r *Runner) TimeUp() bool {
	if r.timeUp() {
		r.Stats.TimedOut = true
		return true
	}
	return false
}

// Merge folds b into a.
func Merge(a *Stats, b *Stats) {
	a.Executions += b.Executions
	a.NonTrivial += b.NonTrivial
	a.Points += b.Points
	a.Steps += b.Steps
	a.DetChecks += b.DetChecks
	if b.Units > a.Units {
		a.Units = b.Units
	}
	if b.MaxPoints > a.MaxPoints {
		a.MaxPoints = b.MaxPoints
	}
	if b.MaxThreads > a.MaxThreads {
		a.MaxThreads = b.MaxThreads
	}
	if b.BoundTarget > a.BoundTarget {
		a.BoundTarget = b.BoundTarget
	}
	if b.BoundCompleted < a.BoundCompleted {
		a.BoundCompleted = b.BoundCompleted
	}
	a.TimedOut = a.TimedOut || b.TimedOut
	if a.Outcomes == nil {
		a.Outcomes = map[string]int64{}
	}
	for k, v := range b.Outcomes {
		a.Outcomes[k] += v
	}
	if a.ByCost == nil {
		a.ByCost = map[int]int64{}
	}
	for k, v := range b.ByCost {
		a.ByCost[k] += v
	}
	if a.ClassCounts == nil {
		a.ClassCounts = map[string]int64{}
	}
	for k, v := range b.ClassCounts {
		a.ClassCounts[k] += v
	}
	if a.Extra == nil {
		a.Extra = map[string]int64{}
	}
	for k, v := range b.Extra {
		a.Extra[k] += v
	}
	a.Violations = append(a.Violations, b.Violations...)
	sort.SliceStable(a.Violations, func(i, j int) bool { return a.Violations[i].Cost < a.Violations[j].Cost })
	for _, s := range b.Samples {
		if len(a.Samples) < 8 {
			a.Samples = append(a.Samples, s)
		}
	}
	a.HarnessErrors = append(a.HarnessErrors, b.HarnessErrors...)
}
