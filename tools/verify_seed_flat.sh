#!/bin/bash
# verify_seed_flat.sh <agent-worktree> <name> <pkgdir>: like verify_seed.sh for the round-7 layout, where the
# sub-agent leaves <agent-worktree>/patch.diff (source change only) and <pkgdir>/seed_demo_test.go (TestSeedDemo).
# Confirms in a fresh scratch worktree of /repo HEAD: patch applies, project builds, the whole existing suite
# passes with it, the demonstration fails with it and passes without it; then stores /verif/seeded/<name>/.
set -u
SRC=$1; NAME=$2; PKG=$3
export GOFLAGS=-mod=mod GOPROXY=off GOSUMDB=off GOTOOLCHAIN=local
W=/tmp/seedv/$NAME
rm -rf $W; mkdir -p /tmp/seedv; git -C /repo worktree prune; git -C /repo worktree add -q --detach $W HEAD || exit 2
cd $W
git apply --check $SRC/patch.diff || { echo "PATCH DOES NOT APPLY"; cd /; git -C /repo worktree remove --force $W; exit 2; }
DEMOCMD="go test -vet=off -count=1 -run TestSeedDemo ./$PKG/"
git apply $SRC/patch.diff
echo "== suite with patch"; go build ./... && go test -vet=off -count=1 -timeout 25m ./... 2>&1 | grep -v "no test files" | tail -8
cp $SRC/$PKG/seed_demo_test.go $PKG/seed_demo_test.go
echo "== demo WITH patch (expect failure)"; (timeout 600 bash -c "$DEMOCMD") > /tmp/seedv/$NAME.with.log 2>&1; WITH=$?; tail -6 /tmp/seedv/$NAME.with.log
git apply -R $SRC/patch.diff
echo "== demo WITHOUT patch (expect pass)"; (timeout 600 bash -c "$DEMOCMD") > /tmp/seedv/$NAME.without.log 2>&1; WITHOUT=$?; tail -3 /tmp/seedv/$NAME.without.log
echo "RESULT $NAME: demo_with_patch_exit=$WITH demo_without_patch_exit=$WITHOUT"
if [ $WITH -ne 0 ] && [ $WITHOUT -eq 0 ]; then
  D=/verif/seeded/$NAME; mkdir -p $D/demo/$PKG
  cp $SRC/patch.diff $D/patch.diff
  cp $SRC/$PKG/seed_demo_test.go $D/demo/$PKG/seed_demo_test.go
  echo "export GOFLAGS=-mod=mod GOPROXY=off GOSUMDB=off GOTOOLCHAIN=local; $DEMOCMD" > $D/demo_cmd.txt
  echo "stored in $D"
fi
cd /; git -C /repo worktree remove --force $W
