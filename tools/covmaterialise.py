#!/usr/bin/env python3
"""covmaterialise.py overlay.json <copy of /repo> <verif dir>: writes the rewritten sources and
the in-package harness files into a plain copy of the module (for tools/coverage.sh)."""
import json, sys, shutil, os, glob
ov = json.load(open(sys.argv[1]))["Replace"]
for k, v in ov.items():
    assert k.startswith("/repo/")
    shutil.copy(v, os.path.join(sys.argv[2], k[len("/repo/"):]))
for f in glob.glob(sys.argv[3] + "/_inpkg/*/*.go"):
    d = os.path.basename(os.path.dirname(f))
    dst = sys.argv[2] if d == "root" else os.path.join(sys.argv[2], d)
    shutil.copy(f, os.path.join(dst, "zz_verif_" + os.path.basename(f)))
