#!/usr/bin/env python3
"""Applies every confirmed seeded change in /verif/seeded/<name>/ to /repo in turn, runs the listed
checks (quick tier) against it, restores /repo, and records the outcome in seeded/<name>/meta.json
and seeded/RESULTS.md. Usage: tools/seedmatrix.py [name ...]"""
import json, os, subprocess, sys, re, time

NEEDS = {
 "C01": "a non-default namespace, two tables whose qualifier is a suffix of the other's, the sibling's last region cached and the target's not",
 "C02": "two goroutines inside send() of one region client at once (unbatched calls) with a preemption between the id allocation and its re-read",
 "C03": "a connection failure (write/read error or Close) while batchable calls sit in the now buffered hand-off queue, or calls queued after the failure",
 "C04": "two regions behind one connection; the connection dies after one region's probe was answered and before its establisher publishes the client; another request fails in that window",
 "C05": "one multi-request whose calls alternate between regions (A B A B / A B C A C)",
 "C06": "a reversed scan over >=2 regions: a stop row just below a crossed boundary, or a second reversed scan through the same client",
 "C07": "a batch in which one call fails non-retryably in some round while another call needs at least two more retry rounds",
 "C08": "two goroutines putting regions with intersecting ranges, both finishing their overlap search before either inserts",
 "C09": "a region outage whose meta lookup returns a differently named replacement (split/merge) and a failure on the first dial/probe of that replacement",
 "C10": "a Delete with two families of mixed shape (one nil/empty, one with qualifiers), the whole-family entry visited first",
 "C11": "compressed cellblocks with >=2 blocks where a later block is smaller than the slack left in the output buffer",
 "C12": "two calls on one region client where an earlier one gets a ServerError-class result and a later one succeeded or failed non-retryably",
 "C13": "the caller's context ends by deadline (not cancel) while the call is inside a region lookup that has not completed",
 "C14": "a scan that ends through its own context (cancel/deadline) while a region scanner is open",
 "C15": "cellblock compression on and two cellblock-carrying requests inside compressCellblocks of one region client at the same time (a data race on a shared buffer)",
 "C16": "a start key beginning with ',' compared with a start key beginning with a byte below ','",
 "C17": "a batch over two region clients where one answers retry-later and the one collected last fails only with not-serving / connection errors",
 "C19": "a server holding exactly one cached region whose re-lookup returns a differently named region (split/merge) or TableNotFound, then Close()",
 "C20": "a server whose only cached region is split or merged into regions on the same server",
 "C02b": "cellblock compression on; a second compressed response (or request) is processed between the delivery of a result and the caller reading its cells",
 "C03b": "a write error on the connection while a second sender is between the done check and the write lock",
 "C09b": "two callers racing through a cache miss for the same new region, the second reading the cache between the first's put and MarkUnavailable",
 "C05b": "a non-TCP connection and two goroutines sending on one region client, one request with cellblocks and one without, the plain Write falling between the gather's Writes",
 "C06b": "a reversed scan over >=2 regions: a stop row just below a crossed boundary, or a second reversed scan through the same client",
 "C11b": "a batch with a call cancelled before the flush, and a response entry with a result (not an exception) for that dropped call in a frame that carries cellblocks",
 "C12b": "a sub-call whose response carries cells and whose own context expires after the multi was sent but before the response is decoded",
 "C13b": "a call of a batch with its own context, ended by cancel (not deadline) while its region is being looked up or re-established",
 "C14b": "the response that opens a region scanner also says more_results=false with more_results_in_region=true",
 "C17b": "a lookup that fails by timing out (ZooKeeper or meta accept the request but never answer)",
 "C18b": "outstanding count 1 -> 0 -> 1 with the new send's inFlightUp between the reader's unlock and its deadline clear; then the server goes silent",
 "C10c": "a Delete with a whole-family entry visited before a family with qualifiers (the type byte is computed once and never reset)",
 "C01c": "a namespaced table ns:q cached and a default-namespace table of the same length whose name differs only at the separator position (ns_q, nsxq), looked up while it has no cached region",
 "C04c": "two regions behind one connection; the connection is reset after one region's probe succeeded and another request runs clientDown before the establisher publishes the client",
 "C07c": "a call ends a round with a retryable outcome, no non-retryable error so far, and the batch context ends during the back-off between rounds",
 "C08c": "two goroutines putting different overlapping regions, both newer than the same cached region, the second overlap scan running before the first writer inserts",
 "C09c": "an outage whose meta lookup returns a differently named region (split) and whose first attempt at the replacement fails, so that the establisher loops once more",
 "C15c": "the real snappy codec, an incompressible payload of >=256 bytes, no spare capacity in the pooled output buffer, a size just below an allocator size class",
 "C16c": "a start key that begins with ',' compared with a start key beginning with a byte below ','",
 "C19c": "Close while a sender is between its done check and its write: the call registers and writes after Close took the snapshot of outstanding calls and before the socket is shut",
 "C20c": "a healthy connection serving exactly one region which is replaced (split/merge/re-lookup) by a region on the same server that does not host hbase:meta",
 "C02c": "a flush that fails without failing the connection (a batch that cannot be marshalled), after which the batching goroutine keeps using a multi object that is also in the pool",
 "C03c": "batchable calls handed over through a buffered channel: a connection failure while calls sit in the buffer, or calls queued after the failure",
 "C05c": "one multi-request in which a cell-carrying mutation is followed, for the same region, by a mutation without any value (whole-row delete)",
 "C06c": "a reversed scan crossing a region boundary whose start key ends in 0x00, and a row equal to that key minus trailing zero bytes",
 "C11c": "a multi response with a real cellblock whose result entry has an index out of range or of a dropped call (validation moved after the cellblock walk)",
 "C12c": "a call whose key is exactly the stop key of a cached region while the region starting there is not cached",
 "C13c": "two direct senders on one region client, both written; the read-deadline call of one fails on the dying connection and leaves a mutex locked; then cancellation",
 "C14c": "the first response of a region scanner is an empty more-in-region batch (heartbeat on open)",
 "C17c": "a request whose context ends by its own deadline (not cancel) while a lookup keeps failing",
 "C18c": "two direct senders both stalled between their write and inFlightUp while both responses are read (counter 0 -> -1 -> -2 -> -1 -> 0), then an idle period",
 "C18": "an unbatched request whose context is cancelled before the (late) response arrives, then an idle period longer than the read timeout",
 "C01d": "a merge where the client cached a later merged region but not the first, and the cache entry just before the merged region does not overlap it; then a key in the stale region's range",
 "C04d": "lookups that keep failing inside one lookupRegion call for longer than the region lookup timeout (meta row without a server, meta down, ZooKeeper errors), followed by recovery",
 "C06d": "rows arriving as partial fragments: the first assembled row is right, every later fragmented row (same or later scan of the process) is returned fragment by fragment",
 "C07d": "a batch needing at least three rounds with a call retried in rounds 1 and 2 that is not at the front of the batch; the caller's own batch slice compared with the results afterwards",
 "C08d": "a table in a non-default namespace whose cached regions are replaced (split / merge / re-created)",
 "C10d": "a Delete mixing a whole-family entry with a family of qualifiers, the whole-family entry visited first",
 "C15d": "a conforming server stream with a chunk of more than 218421 uncompressed bytes (Hadoop's default cuts at 218422)",
 "C16d": "two names of one table, one start key beginning with ',' and one beginning with a byte below ','",
 "C19d": "a region on a server hosting nothing else is superseded while the server keeps running, then Close()",
 "C20d": "a server's only cached region is replaced by regions on the same server (split with both daughters local)",
 "C10e": "a Delete with DeleteOneVersion and a family whose inner map is empty but not nil ({cf: {}}): cellblock form says DeleteFamily, protobuf form DELETE_FAMILY_VERSION",
 "C16e": "equal table names and start keys that first differ at bytes 128 or more apart (one byte >= 0x80, the other low): sign inverted, at exactly 128 not antisymmetric",
 "C14d": "the server answers more_results=false while the region scanner is still open (more_results_in_region=true) on the second request of a region",
 "C07e": "three rounds: round 1 one call fails fatally while another is retried, round 2 only retryable outcomes (flag overwritten), round 3 success",
 "C02d": "one multi with >=2 cell-carrying results of the same region listed in another order than the action indices",
 "C18d": "a response that arrives for a call whose context has already ended (counter not decremented, deadline left armed), then an idle period longer than the read timeout",
}
CHECKS = {  # seed -> checks to try (own property first)
 "C01": ["C01"], "C02": ["C02"], "C03": ["C03"], "C04": ["C04", "C09"], "C05": ["C05", "C12"], "C06": ["C06"], "C07": ["C07"],
 "C08": ["C08"], "C09": ["C09", "C04"], "C10": ["C10", "C05"], "C11": ["C11", "C15"], "C12": ["C12", "C07"], "C13": ["C13"],
 "C14": ["C14"], "C15": ["C15", "C05"], "C19": ["C19", "C20"], "C20": ["C20", "C19"], "C02b": ["C02"], "C03b": ["C03"], "C09b": ["C09"], "C05b": ["C05"], "C06b": ["C06"], "C11b": ["C11"], "C12b": ["C12", "C02"], "C13b": ["C13"], "C14b": ["C14"], "C17b": ["C17", "C13"], "C18b": ["C18"], "C16": ["C16", "C01"], "C17": ["C17"], "C18": ["C18"],
 "C10c": ["C10"], "C01c": ["C01"], "C04c": ["C04", "C09"], "C07c": ["C07"], "C08c": ["C08"], "C09c": ["C09"], "C15c": ["C15"],
 "C16c": ["C16"], "C19c": ["C19", "C03"], "C20c": ["C20", "C19"],
 "C01d": ["C01", "C08"], "C04d": ["C04", "C17"], "C06d": ["C06", "C14"], "C07d": ["C07"], "C08d": ["C08", "C01"], "C10d": ["C10"], "C15d": ["C15"], "C16d": ["C16"], "C19d": ["C19", "C20"], "C20d": ["C20", "C19"],
 "C02c": ["C02"], "C03c": ["C03"], "C05c": ["C05"], "C06c": ["C06"], "C11c": ["C11"], "C12c": ["C12", "C01"], "C13c": ["C13", "C03"], "C14c": ["C14"], "C17c": ["C17", "C13"], "C18c": ["C18"],
 "C14d": ["C14"], "C07e": ["C07"], "C02d": ["C02"], "C10e": ["C10", "C05"], "C16e": ["C16", "C01"], "C18d": ["C18", "C03", "C13"],
}
names = sys.argv[1:] or sorted(os.listdir('/verif/seeded'))
rows = []
for name in names:
    d = f'/verif/seeded/{name}'
    if not os.path.isdir(d) or not os.path.exists(d + '/patch.diff'):
        continue
    prop = name[:3]
    if name == "C15":
        pass
    res = {}
    for chk in CHECKS.get(name, [prop]):
        p = subprocess.run(['/verif/tools/run_seed.sh', name, chk], capture_output=True, text=True)
        out = p.stdout
        m = re.search(r'exit=(\d+)', out)
        rc = int(m.group(1)) if m else -1
        classes = re.findall(r'violation class=(.*?) unit=', out)
        res[chk] = {"exit": rc, "classes": classes[:4]}
        print(name, chk, rc, classes[:2], flush=True)
    meta = {
        "seed": name, "property": prop,
        "origin": "written by a sub-agent that saw only the property text and its own worktree of /repo; confirmed with tools/verify_seed.sh (verify_seed_flat.sh for round 7) "
                  "(patch applies, project builds, full existing suite passes twice with it, demonstration fails with it and passes without it)",
        "needs_to_manifest": NEEDS.get(name, NEEDS.get(prop, "")),
        "demonstration": open(d + '/demo_cmd.txt').read().strip().splitlines()[-1] if os.path.exists(d + '/demo_cmd.txt') else "",
        "ran": [f"tools/run_seed.sh {name} {c}" for c in res],
        "results": res,
        "detected_by": [c for c, r in res.items() if r["exit"] == 1],
        "date": time.strftime("%Y-%m-%d"),
    }
    json.dump(meta, open(d + '/meta.json', 'w'), indent=1)
    rows.append(meta)
with open('/verif/seeded/RESULTS.md', 'w') as f:
    f.write("# Seeded property-breaking changes and the checks that catch them\n\n| seed | property | detected by (quick tier) | first violation class |\n|---|---|---|---|\n")
    for n in sorted(os.listdir('/verif/seeded')):
        mp = f'/verif/seeded/{n}/meta.json'
        if not os.path.exists(mp):
            continue
        m = json.load(open(mp))
        det = ", ".join(m["detected_by"]) or "MISSED"
        cl = ""
        for c in m["detected_by"]:
            if m["results"][c]["classes"]:
                cl = m["results"][c]["classes"][0]
                break
        f.write(f"| {n} | {m['property']} | {det} | {cl} |\n")
print("written")
