#!/usr/bin/env python3
"""Regenerates /verif/MANIFEST.json from the table below (kept in one place so that
the manifest is always valid and in sync with the registered checks)."""
import json, sys, os

CLAIMED = {
 "C01": ("exploration",
         "exhaustive small-scope enumeration of layouts x cached subsets x keys against a brute-force containment oracle",
         "Layer 1: for every layout of a table with <=3 (thorough <=4) split points over a 5-6 symbol alphabet, every subset of its regions cached, six neighbouring tables (prefix names, namespaces) and every key of length <=3 (plus keys around the 32 KiB search-key truncation), the real cache lookup is compared with the unique containing cached region of the same table (else: must go to meta). Table-name families include prefixes, suffixes, the same qualifier in two namespaces and names that differ from a namespaced one only at the separator byte. ~10^8 lookups quick; plus layer 2 (end to end on the wire, tier W): every ordered pair of 12 keys x 7 request kinds (get, put, delete, append, increment, check-and-put, batch) x 7-16 layouts of three tables on two servers - the simulated servers must never see a request for a region they do not own, and a key inside a known region must cause no meta lookup, any other exactly one.",
         "Scope bound on alphabet and lengths; default thread schedule in layer 2.", "DESIGN.md §4 C01"),
 "C03": ("fault_enumeration",
         "stateless model checking of the real region client: fault-position enumeration x server misbehaviours x all schedules up to a deviation bound (controlled scheduler, virtual time)",
         "For 4 call mixes, every connection-operation index k is faulted in turn (partial writes included), every server misbehaviour is injected at every frame, with/without an external Close(); each unit is explored over all schedules with <=1 (quick) / <=2 (thorough) deviations. Oracle: exactly one completion per live call (lost = caller blocked at quiescence, duplicate = deliverer blocked or result left in the channel), ServerError class, later calls refused at once, reader/writer threads gone. Close() additionally starts at every scheduling step of the client threads, against a healthy and a silent server (interrupt units), each with <=1 (2) further deviations.",
         "Atomicity between scheduling points (channel ops, locks, atomics, Once, net.Conn methods); deviation bound; 4 call mixes of <=3 calls.", "DESIGN.md §4 C03"),
 "C18": ("model_checking",
         "stateless model checking of the real region client on a virtual clock: all schedules up to 2 deviations x server answer patterns x idle period",
         "For 5 (thorough 7) call mixes (direct, multi, cancelled in flight) x 4 server answer patterns, every schedule with <=2 deviations is executed on the real region client over a simulated connection whose deadlines live on a virtual clock; then the clock advances 5 read time-outs and one more request is sent. Oracle: something unanswered => the connection fails no later than last send + readTimeout; everything answered => the connection is never torn down and still works.",
         "Virtual time (timers fire at quiescence); deviation bound 2; executions whose byte stream was corrupted by interleaved senders are left to C05.", "DESIGN.md §4 C18"),
 "C02": ("model_checking",
         "stateless model checking of the real region client: all schedules up to a deviation bound x all response permutations x all multi-result permutations x exception placements; key-derived payload oracle",
         "2-4 concurrent callers on one real region client over a simulated connection; the server thread either holds all requests and answers them in every permutation or answers on arrival; inside each multi-response the result order per region is permuted exhaustively and the trailing cellblock follows that order with 0/1/2 cells per result; per-action and per-region exceptions are placed everywhere; all schedules with <=1 (thorough <=2) deviations. The payload for key k is a function of k, so the oracle knows what each caller must receive without asking the client.",
         "Deviation bound; <=4 callers; RegionActionResult order equals request order (as HBase does).", "DESIGN.md §4 C02"),
 "C10": ("exploration",
         "exhaustive small-scope enumeration of field-length boundaries x mutation kinds x map shapes; two decoders and a set comparison of both encodings",
         "Every combination of row/family/qualifier/value length boundaries, 6 timestamps incl. the latest sentinel, 5 mutation kinds and 11 value-map shapes (nil/empty inner and outer maps, two families in both orders) is encoded by the client as cellblock and as protobuf; the cellblock is decoded by the client's own reader and by an independent KeyValue reader (identical fields, exact byte consumption, declared count), and the cells denoted by the protobuf form are compared as a set with the cellblock form and with the requested cells. The whole enumeration is decided a second time in a worker built for GOARCH=386 (int has 32 bits).",
         "Lengths only at the listed boundary values; protobuf-form semantics per HBase ProtobufUtil.", "DESIGN.md §4 C10"),
 "C06": ("model_checking",
         "exhaustive enumeration of every server chunking (environment choices under the controlled runtime) x small tables / layouts / ranges / directions; real scanner vs sorted range-filtered model",
         "The real scanner runs over a simulated RPCClient; for every response the explorer chooses how many cells are returned (0 = heartbeat), whether the end of the region is reported with the data or separately, and whether more_results=false is sent early; all choice sequences are enumerated for every subset of 3-4 row keys (incl. keys ending in 00/ff), 1-3 cells, 1-4 regions, every [start,stop), both directions, row limits and partials on/off (958k executions quick). Oracle: Next() yields exactly the sorted range-filtered rows, whole, once; fragments concatenate; shared region descriptors are not mutated; a second scan through the same client agrees.",
         "Heartbeat / deferred end-of-region liberties capped at one per region scanner; default thread schedule; scope bounds on rows/regions.", "DESIGN.md §4 C06"),
 "C14": ("model_checking",
         "the C06 harness with the scan ended at every point x every server chunking; server-side scanner table as observer",
         "Every C06-style configuration (3 rows) is additionally ended after every number of Next calls by Close, cancellation, an RPC error on request j, or more_results=false while a region scanner is open, with and without a lease renewer on the virtual clock; all chunkings enumerated. Oracle: error/cancellation once then io.EOF, Close idempotent, no region scanner left open on the simulated server after draining, no client thread (renewer) left. On tier W (real client and region clients) the scan context additionally ends at every scheduling step between the first Next and the end of the scan.",
         "As C06.", "DESIGN.md §4 C14"),
 "C11": ("fault_enumeration",
         "bounded exhaustive malformed-input enumeration into the decoders and through the real reader goroutine under the controlled scheduler; allocation-driving inputs in a memory-limited sub-process",
         "Part A: all byte strings of length <=2 (thorough <=3), all strings <=6 (8) over six boundary bytes, and the 10x10x10x8x6 boundary product of the five KeyValue length fields (on exact, short and two-cell buffers whose capacity equals their length) into the cellblock reader; every prefix and byte corruption of a region-info value into the meta-row parser; frame length prefixes of 2^31 and more into the real receive function; all byte strings <=7 (9) over five boundary bytes, and a valid two-block stream with boundary values at every byte of its length headers (singly and in pairs) and every truncation, into the cellblock decompressor. Part A is decided a second time in a worker built for GOARCH=386, where the uint32 lengths of the wire exceed int. Part B: for outstanding get / mutate / scan / multi calls, ~50 structure-aware mutations each (call id, exception parts, delimiters, cellblock length, cell counts, scan arrays, multi indices / duplicates / region-result counts / nameless exceptions, frame length), every truncation and 5 values at every byte of the valid frame, damaged compressed cellblocks, all delivered by a simulated server to the real reader goroutine. Oracle: no panic in any thread, no caller stranded, reader not blocked, later calls served or refused.",
         "The 4-byte frame length is trusted between 1 MiB and 2^31 (framing-inherent allocation not judged); the GOARCH=386 pass covers part A only; default thread schedule in part B; pairs of mutations only in the thorough tier.", "DESIGN.md §4 C11"),
 "C15": ("exploration",
         "exhaustive small-size + chunk-boundary enumeration of payloads, buffer splits, block/chunk compositions, truncations and byte flips against an independent Hadoop block-stream reader and snappy decoder",
         "Client compress -> independent reader = input = client decompress for sizes 0..64 and around 1-3 chunks (218421 B) x 3 content classes x every buffer split; conforming server streams from an independent writer in every composition of <=3 blocks x 1..3 chunks; every truncation and byte substitution of small streams must give an error or exactly what the independent reader returns (raw snappy has no checksum). Streams that declare huge lengths run in a 1 GiB sub-process. Every size 65..9000 (thorough 70000) x {compressible, incompressible} x state of the client's buffer pool {cold, warm, holding only a tiny buffer} is round-tripped as well, each in its own controlled execution with a deterministic pool; incompressible streams of 32 MiB and 64 MiB (64 x their length passes 2^31 / 2^32). All of it is decided a second time in a worker built for GOARCH=386.",
         "Differential oracle for corruption; golang/snappy is the client's codec, the check uses its own decoder.", "DESIGN.md §4 C15"),
 "C04": ("model_checking",
         "stateless model checking of the real top-level client over a simulated cluster: bounded fault scripts x cache state x event position x schedules up to a deviation bound; the cluster executor is the server-side observer",
         "Every sequence of <=2 events from a 19-event menu (move, split, merge, eight transient exception classes, server crash / stopped / aborted, connection reset, meta move, meta NSRE, ZooKeeper errors) is applied before or concurrently with 1-2 requests on a warm or cold cache; two regions behind one shared connection; a request held in flight while the fault hits, with the fault position enumerated over the first server-side attempts; application exception and dropped table as fatal outcomes. All schedules with <=1-2 deviations. Oracle: success with the request's own value, executed by a server hosting the owning region at that moment (the executor refuses stale names); fatal errors unchanged and not re-executed; nothing blocked. Every single event of the menu is additionally fired as an interrupt at every scheduling step of the client threads while two requests are in progress (cold / warm cache, two servers / one shared connection), on tier L with <=1 further deviation (2 for the hard events on a warm cache in the thorough tier) and on tier W.",
         "Tier L (simulated region clients); cluster model fidelity; deviation bound; scripts of length <=2 (3 sampled in thorough).", "DESIGN.md §4 C04"),
 "C07": ("model_checking",
         "stateless model checking of SendBatch on the real client over a simulated cluster: per-call outcome scripts x re-location/cancellation events x positions x schedules",
         "Batches of 1-3 calls over 1-2 regions on 1-2 servers; for every call every outcome sequence of bounded length over {fatal, retry-later, not-serving, connection-dead} followed by success; events {cancel, table dropped so that re-location fails, meta silent then cancel so that re-location blocks, client closed} fired after the k-th user operation; schedules with <=1-2 deviations. Oracle: res[i] is call i's own payload with nil error iff a server executed it, no result mixes response and error or carries another call's error, none is empty, allOK iff every error is nil. Cancellation and Close are additionally fired as interrupts at every scheduling step of SendBatch for the two-call batches with short scripts.",
         "Tier L; bounded script length; deviation bound.", "DESIGN.md §4 C07"),
 "C09": ("model_checking",
         "stateless model checking of availability channels / establishers / connection cache of the real client over a simulated cluster: concurrent callers x faults x positions x schedules up to 2-3 deviations",
         "2-3 concurrent callers over 2-3 regions behind one or two connections, nine fault kinds (connection reset, crash with reassignment, NSRE bursts, split, split with daughter still opening, merge, server-stopped, move), either as a cold burst or with a request held in flight and the fault fired after the k-th server-side attempt. Oracle: no panic in any thread (double release = close of nil channel), all requests succeed, and at quiescence no cached region is unavailable and no client thread is still running. Every event is additionally fired as an interrupt at every scheduling step of a cold burst of two callers and of two callers with one region known, in all layouts, with <=1 further deviation. A further family dumps the client's state (DebugState) twice while a request runs and a reset / crash / split / merge hits.",
         "Tier L; the data-race clause is not decided by this check (a cooperative scheduler's hand-offs hide races from the detector) - see DESIGN.md §6.", "DESIGN.md §4 C09"),
 "C12": ("model_checking",
         "stateless model checking of SendBatch with the simulated cluster's executor as observer: invalid batches at every position; attempts, execution counts and per-region order judged at the servers",
         "Invalid batches (other table / repeated call / non-batchable call / scan at every position, cold and warm cache) must be rejected as a whole with nothing reaching any server; valid batches over the C07 configuration space must never execute a call twice (increments counted in a model table), never re-send after success or a non-retryable error, never address a region that does not own the key, and keep batch order among same-region calls of one multi-request. Cancellation and Close are additionally fired as interrupts at every scheduling step of SendBatch (as C07).",
         "Tier L: order inside a multi-request is the hand-over order to the (simulated) region client; the real multi assembly is checked by C02/C05.", "DESIGN.md §4 C12"),
 "C13": ("model_checking",
         "stateless model checking with a freeze-the-world oracle on a virtual clock: every wait state x entry point x cancel/deadline x instant x schedules up to a deviation bound",
         "The client is scripted into each wait state (ZooKeeper silent, meta silent, probe unanswered, retry back-off, server silent after the request, re-establishment with meta silent, lookup back-off; plus the region client's busy send queue on tier R); through get, put, batch with shared context, batch with one call's own context, and scanner; the context is cancelled (or its virtual deadline expires) at 0 / 20 ms / 3 s / 100 s and from that instant the environment answers nothing. Oracle: the API call returns with a context error no later than 1 s of virtual time afterwards; a batch returns with the affected call marked failed and the others untouched. The context is additionally cancelled as an interrupt at every scheduling step of the call (first 120 / 160 client steps) in each wait state and on a healthy cluster, for every entry point, with <=1 further deviation.",
         "Virtual time; tier L for all states but the send queue; deviation bound 1 (2 thorough).", "DESIGN.md §4 C13"),
 "C17": ("model_checking",
         "stateless model checking on a virtual clock: persistent-failure scripts x entry points; attempt times stamped by the simulated servers against the literal back-off table; early timer firing as counted deviations; step horizon = hot loop",
         "Seven persistent failures (retry-later forever, server passes the probe but drops every request, region never online, meta retry-later, meta dropping requests, ZooKeeper errors, dial refused) plus two mixed two-server batches, through single get / batch of one / batch of two, observed for 10 virtual minutes. Under the default clock the retry-later loop must equal 16 ms doubling to 8.192 s then +5 s to 33.192 s; every other persisting loop (user call, probe, lookup, ZooKeeper) must be >= the table with at most two immediate retries for connection-level failures; with early timer firing only the lower bound applies. The wait function is stepped 30 times against the table.",
         "Virtual clock; tier L; establishment/lookup loops are judged where they are the persisting loop.", "DESIGN.md §4 C17"),
 "C19": ("model_checking",
         "stateless model checking of Close() racing with requests, lookups, establishment and retries: Close position x environment x schedules up to a deviation bound; quiescence observer; plus the real region client's Dial racing Close on tier R",
         "Close() (once or twice) fired immediately or after the k-th server-side attempt (k=0..6) against 1-2 concurrent requests on a cold or partly warm cache, in six environments (healthy, slow servers, retry-later, ZooKeeper errors, meta retry-later, probe refused), two layouts, all schedules with <=1 (thorough 2-3) deviations; and Dial vs Close vs a queued call on the real region client with <=2 deviations. Oracle: calls return nil or client-closed within one back-off step of Close, later calls are refused at once, every dialled connection is closed, nothing (ZooKeeper lookup, dial, request) starts once all calls have returned, no client thread is left after 2 h of virtual time. On tier W Close additionally starts as an interrupt at every scheduling step of one (thorough two) requests, answered or held in flight by the servers, with <=1 further deviation.",
         "Tier L for the top-level client (simulated region clients model the repaired real one; the real one is checked on tier R).", "DESIGN.md §4 C19"),
 "C20": ("model_checking",
         "stateless model checking of the connection cache under concurrent first use: regions x callers x all schedules with <=2 deviations; dial and open-connection counters",
         "2-4 regions on one address first used by as many (or one more) concurrent callers from a cold cache, optionally followed by a later discovery on the same server, by a split / merge of a server's only regions, or by a connection reset and a second burst. Tier W (real region clients, a dialer that fails like net.Dialer when its context ends): 2-3 regions first used concurrently; CacheRegions after splits / merges; and two regions first used by three callers while the first region splits server-side at every scheduling step of the run (an interrupt) plus <=1 (thorough 2) deviations - dial starts are counted. Oracle: one dial per connection generation, never two connections open to one address, all requests succeed.",
         "Tiers L and W.", "DESIGN.md §4 C20"),
 "C05": ("model_checking",
         "call shapes and multi groupings through the real region client into an independent wire decoder; concurrent senders on a non-TCP connection under all schedules with <=2 deviations",
         "Every call shape (mutation kinds x value maps x timestamps x durabilities x TTL, check-and-put, gets and scans with their options singly and in pairs, scanner continue/close/renew; mutations with rows of 255..65539 bytes x families of 1..258 bytes - around the widths of the KeyValue length fields - which must be on the wire as built or be refused when built) and every multi-request grouping of 1-4 calls over two regions (plus sequences over three) is sent by the real region client, plain and snappy-compressed, over a simulated connection; an independent decoder checks preamble, connection header, frame length, unique call ids, method, priority, cellblock length, cell counts and compares the decoded operation field by field with what the caller built. 2-3 concurrent senders on a net.Conn whose gather write is several Writes are explored over all schedules with <=2 deviations: the stream must parse into exactly the issued frames.",
         "Kernel-TCP writev atomicity is trusted (not modelled); map iteration order inside the client is fixed by the instrumentation, family orders are varied by the inputs.", "DESIGN.md §4 C05"),
 "C08": ("model_checking",
         "explicit-state breadth-first search over the real location cache, every transition executed on the implementation and judged against an interval model",
         "All 1683 reachable states of a universe of every interval over 3 boundary points x 2 ids (plus a prefix-named table) with put/del of every region as transitions (87k per configuration), repeated with 0..130 filler regions to move entries across B-tree pages; invariant (no two cached regions of a table intersect) in every state, transition relation (evict-all-older / unchanged) on every edge, dead marks, and a differential rebuild from the canonical state.",
         "Universe bound; equal ids with different names left open as the statement does. Concurrent puts are covered by the schedule units added in later revisions.", "DESIGN.md §4 C08"),
 # id: (level, technique, text, note, design_ref)
 "C16": ("exploration",
         "exhaustive small-scope enumeration (all pairs/triples of region names in a bounded alphabet) against a tuple-order oracle",
         "Every ordered pair of ~9k (quick) / ~23k (thorough) well-formed region names and every triple of a 160-name subset is compared with the real comparator and with a component-wise (table,start,id) oracle; search keys 'table,key,:' are compared against every name. Exhaustive within the stated alphabet and key length, which is where comparator mistakes live (bytes around ',' and unequal lengths).",
         "Scope bound: start keys <=3 bytes over a 6 (thorough 8) symbol alphabet; well-formed names only.", "DESIGN.md §4 C16"),
}
FIX_COMMITS = ["0da2129", "62252c5", "effb93f", "0cef440", "27c75df", "f573f90", "137cea9", "fa68402", "74e6ab5", "ffdcfd8", "dc24a9a", "6fcb5bf", "0fa34d5", "6c1c1ad", "7f1a30c", "182fbfa", "4bf0000", "ea56d2b", "42fccfe", "9fcc7db", "b774b6b", "8cf1667", "37b9cbe", "93791b8", "c29fe29", "6580dad", "aa30842", "52a1fca", "742668c", "416af3a", "391f649", "3b0b9d6", "fe3839c", "52710a6", "a206221", "401f2d8", "d07342b", "4321484", "fb45e7e", "905f0eb", "6247cc8", "4bc6452", "9ca6716", "f352e7f", "b49b752", "a7ff6df", "8fa59cf"]
NA_REASONS = {}
PENDING_REASON = "check under construction in this revision (planned: see DESIGN.md §4); not claimed until its check is committed"

props = [json.loads(l) for l in open('/verif/properties.jsonl')]
checks = []
na = []
for p in props:
    pid = p['id']
    if pid in CLAIMED:
        lvl, tech, text, note, ref = CLAIMED[pid]
        checks.append({
            "property_id": pid,
            "quick_cmd": f"./bin/vcheck {pid} --tier quick",
            "thorough_cmd": f"./bin/vcheck {pid} --tier thorough",
            "evidence_file": f"/verif/evidence/{pid}.json",
            "replay_cmd_template": f"./bin/vcheck {pid} --replay {{path}}",
            "engine": "vcheck",
            "level_claimed": {"category": lvl, "text": text, "design_ref": ref},
            "level_note": note,
            "technique": tech,
        })
    else:
        na.append({"property_id": pid, "reason": NA_REASONS.get(pid, PENDING_REASON)})

m = {
 "version": 1,
 "setup_cmd": "./setup.sh",
 "hooks": {
   "guard": "verif-overlay (no guarded code is committed in /repo: instrumentation is generated at check time by /verif/vinstr and applied with `go build -overlay`)",
   "enable": "bin/vcheck rewrites the non-test sources of github.com/tsuna/gohbase{,/region,/hrpc} from /repo's working tree (go/select/chan ops/map ranges/%p formatting -> verif/vrt; sync, sync/atomic, time, context -> shims), adds /verif/_inpkg/* accessor files to the packages and builds cmd/vworker with -overlay",
   "baseline_off_cmd": "cd /repo && GOFLAGS=-mod=mod GOPROXY=off GOSUMDB=off go test -vet=off -count=1 ./...",
   "source_commits": FIX_COMMITS,
   "add_only": True
 },
 "engines": [
   {"name": "vcheck", "path": "/verif/cmd/vcheck", "serves_properties": [c["property_id"] for c in checks],
    "kind_free_text": "hand-written stateless model checker for Go: source instrumenter (vinstr) + controlled scheduler with virtual time (vrt) + deviation-bounded exhaustive DFS sharded over 16 processes (explore) + simulated HBase cluster with independent wire codec (sim); pure input spaces are enumerated exhaustively through the same reporting path"}
 ],
 "checks": checks,
 "not_applicable": na,
 "notes": "All checks rebuild the instrumented worker from /repo's current working tree on every invocation. Exit 0 = held on everything explored, 1 = VIOLATION line, 2 = harness error (never a verdict). known_findings.json lists recorded genuine defects (open) and repaired ones (fixed)."
}
json.dump(m, open('/verif/MANIFEST.json','w'), indent=1)
print("checks:", [c["property_id"] for c in checks], "not_applicable:", len(na))
