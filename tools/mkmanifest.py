#!/usr/bin/env python3
"""Regenerates /verif/MANIFEST.json from the table below (kept in one place so that
the manifest is always valid and in sync with the registered checks)."""
import json, sys, os

CLAIMED = {
 # id: (level, technique, text, note, design_ref)
 "C16": ("exploration",
         "exhaustive small-scope enumeration (all pairs/triples of region names in a bounded alphabet) against a tuple-order oracle",
         "Every ordered pair of ~2.6k (quick) / ~10k (thorough) well-formed region names and every triple of a 160-name subset is compared with the real comparator and with a component-wise (table,start,id) oracle; search keys 'table,key,:' are compared against every name. Exhaustive within the stated alphabet and key length, which is where comparator mistakes live (bytes around ',' and unequal lengths).",
         "Scope bound: start keys <=2/<=3 bytes over {00,'+',',','-','a',ff}; well-formed names only.", "DESIGN.md §4 C16"),
}
NA_REASONS = {}
PENDING_REASON = "check under construction in this revision (planned: see DESIGN.md §4); not claimed until its check is committed"

props = [json.loads(l) for l in open('/verif/properties.jsonl')]
checks = []
na = []
for p in props:
    pid = p['id']
    if pid in CLAIMED:
        lvl, tech, text, note, ref = CLAIMED[pid]
        checks.append({
            "property_id": pid,
            "quick_cmd": f"./bin/vcheck {pid} --tier quick",
            "thorough_cmd": f"./bin/vcheck {pid} --tier thorough",
            "evidence_file": f"/verif/evidence/{pid}.json",
            "replay_cmd_template": f"./bin/vcheck {pid} --replay {{path}}",
            "engine": "vcheck",
            "level_claimed": {"category": lvl, "text": text, "design_ref": ref},
            "level_note": note,
            "technique": tech,
        })
    else:
        na.append({"property_id": pid, "reason": NA_REASONS.get(pid, PENDING_REASON)})

m = {
 "version": 1,
 "setup_cmd": "./setup.sh",
 "hooks": {
   "guard": "verif-overlay (no guarded code is committed in /repo: instrumentation is generated at check time by /verif/vinstr and applied with `go build -overlay`)",
   "enable": "bin/vcheck rewrites the non-test sources of github.com/tsuna/gohbase{,/region,/hrpc} from /repo's working tree (go/select/chan ops/map ranges -> verif/vrt; sync, sync/atomic, time, context -> shims), adds /verif/_inpkg/* accessor files to the packages and builds cmd/vworker with -overlay",
   "baseline_off_cmd": "cd /repo && GOFLAGS=-mod=mod GOPROXY=off GOSUMDB=off go test -vet=off -count=1 ./...",
   "source_commits": [],
   "add_only": True
 },
 "engines": [
   {"name": "vcheck", "path": "/verif/cmd/vcheck", "serves_properties": [c["property_id"] for c in checks],
    "kind_free_text": "hand-written stateless model checker for Go: source instrumenter (vinstr) + controlled scheduler with virtual time (vrt) + deviation-bounded exhaustive DFS sharded over 16 processes (explore) + simulated HBase cluster with independent wire codec (sim); pure input spaces are enumerated exhaustively through the same reporting path"}
 ],
 "checks": checks,
 "not_applicable": na,
 "notes": "All checks rebuild the instrumented worker from /repo's current working tree on every invocation. Exit 0 = held on everything explored, 1 = VIOLATION line, 2 = harness error (never a verdict). known_findings.json lists recorded genuine defects (open) and repaired ones (fixed)."
}
json.dump(m, open('/verif/MANIFEST.json','w'), indent=1)
print("checks:", [c["property_id"] for c in checks], "not_applicable:", len(na))
