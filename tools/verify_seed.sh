#!/bin/bash
# verify_seed.sh <ID> [name]: independently confirms a seeded property-breaking change produced in /tmp/seed/<ID>:
#  - the patch applies to /repo HEAD, the project builds and the full existing suite passes with it
#  - the demonstration passes without the patch and fails with it
# and stores it as /verif/seeded/<name>/ {patch.diff, demo files, meta.json draft}.
set -u
ID=$1; NAME=${2:-$ID}
SRC=/tmp/seed/$ID
export GOFLAGS=-mod=mod GOPROXY=off GOSUMDB=off GOTOOLCHAIN=local
W=/tmp/seedv/$NAME
rm -rf $W; git -C /repo worktree prune; git -C /repo worktree add -q --detach $W HEAD || exit 2
cd $W
git apply --check $SRC/out/patch.diff || { echo "PATCH DOES NOT APPLY"; exit 2; }
# demo files = untracked files of the agent's worktree outside out/
DEMOS=$(cd $SRC && git status --porcelain | grep '^??' | awk '{print $2}' | grep -v '^out/' | grep -v '\.mypatch$')
echo "demo files: $DEMOS"
DEMOCMD=$(cat $SRC/out/demo_cmd.txt | grep -v '^#' | sed 's/^export [^;]*; *//' | grep -v '^export' | grep 'go ' | head -1 | sed "s#/tmp/seed/$ID#$W#g")
echo "demo cmd: $DEMOCMD"
git apply $SRC/out/patch.diff
echo "== suite with patch (run 1)"; go build ./... && go test -vet=off -count=1 -timeout 25m ./... 2>&1 | grep -v "no test files" | tail -8
S1=${PIPESTATUS[0]}
echo "== suite with patch (run 2)"; go test -vet=off -count=1 -timeout 25m ./... 2>&1 | grep -E "^(FAIL|---)" | head
for f in $DEMOS; do mkdir -p $(dirname $f); cp $SRC/$f $f; done
echo "== demo WITH patch (expect failure)"; (timeout 600 bash -c "$DEMOCMD") > /tmp/seedv/$NAME.with.log 2>&1; WITH=$?; tail -5 /tmp/seedv/$NAME.with.log
git apply -R $SRC/out/patch.diff
echo "== demo WITHOUT patch (expect pass)"; (timeout 900 bash -c "$DEMOCMD") > /tmp/seedv/$NAME.without.log 2>&1; WITHOUT=$?; tail -3 /tmp/seedv/$NAME.without.log
echo "RESULT $NAME: demo_with_patch_exit=$WITH demo_without_patch_exit=$WITHOUT"
if [ $WITH -ne 0 ] && [ $WITHOUT -eq 0 ]; then
  D=/verif/seeded/$NAME; mkdir -p $D/demo
  cp $SRC/out/patch.diff $D/patch.diff
  for f in $DEMOS; do mkdir -p $D/demo/$(dirname $f); cp $SRC/$f $D/demo/$f; done
  cp $SRC/out/demo_cmd.txt $D/demo_cmd.txt; cp $SRC/out/notes.md $D/notes.md 2>/dev/null
  echo "stored in $D"
fi
cd /; git -C /repo worktree remove --force $W
