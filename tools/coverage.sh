#!/bin/bash
# Diagnostic, not a check: statement coverage of the client code (root, region, hrpc)
# reached by one tier of the given checks (default: all, quick). Used to find behaviour no
# check drives. Builds a materialised copy of the rewritten sources under /tmp (cover does
# not combine with -overlay), runs the workers with GOCOVERDIR and lists the uncovered
# statements.
set -e
export GOFLAGS=-mod=mod GOPROXY=off GOSUMDB=off GOTOOLCHAIN=local
V=${VERIF_DIR:-/verif}
T=/tmp/vcov
TIER=${TIER:-quick}
ids=${@:-C01 C02 C03 C04 C05 C06 C07 C08 C09 C10 C11 C12 C13 C14 C15 C16 C17 C18 C19 C20}
rm -rf $T && mkdir -p $T/repo $T/data $T/instr
rsync -a --exclude .git /repo/ $T/repo/
(cd $V && ./bin/vinstr -repo /repo -out $T/instr github.com/tsuna/gohbase github.com/tsuna/gohbase/region github.com/tsuna/gohbase/hrpc)
python3 $V/tools/covmaterialise.py $T/instr/overlay.json $T/repo $V
sed "s#=> /repo#=> $T/repo#" $V/go.mod > $T/go.mod
cp $V/go.sum $T/go.sum
(cd $V && go build -modfile=$T/go.mod -cover \
   -coverpkg=verif/cmd/vworker,github.com/tsuna/gohbase,github.com/tsuna/gohbase/region,github.com/tsuna/gohbase/hrpc \
   -o $T/vworker ./cmd/vworker)
for id in $ids; do
  mkdir -p $T/data/$id $T/out
  for i in $(seq 0 15); do
    GOCOVERDIR=$T/data/$id GOMAXPROCS=1 $T/vworker -prop $id -tier $TIER -shard $i -nshards 16 \
      -out $T/out/$id.$i.json -replaydir $T/out/replays >/dev/null 2>&1 &
  done
  wait
  echo "$id done"
done
dirs=$(ls -d $T/data/* | paste -sd,)
(cd $V && go tool covdata textfmt -i=$dirs -o $T/profile.txt)
python3 $V/tools/covreport.py $T/profile.txt $T/repo > $T/report.txt
head -3 $T/report.txt; grep "^==" $T/report.txt
echo "full report: $T/report.txt"
