#!/bin/bash
# Runs the thorough tier of the given checks from this checkout (works inside a `vp run` snapshot).
export GOFLAGS=-mod=mod GOPROXY=off GOSUMDB=off GOTOOLCHAIN=local
export VERIF_DIR=$(pwd)
[ -n "$VP_RUN_REPO" ] && export VERIF_REPO=$VP_RUN_REPO
mkdir -p bin evidence
go build -o bin/vcheck ./cmd/vcheck || exit 2
for c in "$@"; do
  echo "== $c $(date +%H:%M:%S)"
  ./bin/vcheck $c --tier thorough 2>&1 | grep -E "^vcheck: C|VIOL|^violation|KNOWN|HARNESS" | cut -c1-400
  echo "   exit=${PIPESTATUS[0]}"
done
echo "ALL DONE $(date +%H:%M:%S)"
