#!/usr/bin/env python3
"""Prints the table of DESIGN.md 8.2 (quick tier on the repaired tree) from evidence/*.json."""
import json, glob, os
rows = []
for f in sorted(glob.glob('/verif/evidence/C*.json')):
    d = json.load(open(f))
    c = d['coverage']
    ev = c.get('evaluations', 0)
    size = f"{ev/1e6:.1f} M" if ev >= 1e6 else f"{ev/1e3:.0f} k"
    b = f"{c.get('deviation_bound_completed','-')}/{c.get('deviation_bound_target','-')}"
    rp = c.get('race_pass')
    extra = []
    if rp:
        extra.append(f"race pass {rp.get('iterations','?')} iterations")
    if c.get('known_finding_executions'):
        extra.append("1 open finding")
    rows.append(f"| {d['property_id']} | {size} | {b} | {c.get('exhaustive')} | {d.get('wall_s',0):.0f} s | {'; '.join(extra)} |")
print("| id | executions / inputs | deviation bound done/target | exhaustive | wall | |")
print("|---|---|---|---|---|---|")
print("\n".join(rows))
