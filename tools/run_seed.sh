#!/bin/bash
# run_seed.sh <seed-name> <check-id> [tier]: applies /verif/seeded/<seed-name>/patch.diff to /repo,
# runs the check, and always restores /repo afterwards.
NAME=$1; ID=$2; TIER=${3:-quick}
cd /verif
git -C /repo diff --quiet || { echo "/repo has uncommitted changes"; exit 2; }
git -C /repo apply /verif/seeded/$NAME/patch.diff || { echo "patch does not apply"; exit 2; }
# evidence and replays committed in /verif must describe the unchanged tree: keep them aside
mkdir -p /tmp/run_seed_keep; rm -rf /tmp/run_seed_keep/$ID.replays
cp evidence/$ID.json /tmp/run_seed_keep/$ID.json 2>/dev/null
[ -d replays/$ID ] && cp -r replays/$ID /tmp/run_seed_keep/$ID.replays
./bin/vcheck $ID --tier $TIER > /tmp/run_seed_$NAME.$ID.log 2>&1; RC=$?
git -C /repo checkout -- .
cp /tmp/run_seed_keep/$ID.json evidence/$ID.json 2>/dev/null
rm -rf replays/$ID; [ -d /tmp/run_seed_keep/$ID.replays ] && cp -r /tmp/run_seed_keep/$ID.replays replays/$ID
grep -E "^(vcheck: C|VIOLATION|KNOWN|violation class)" /tmp/run_seed_$NAME.$ID.log | head -8
echo "SEED $NAME check $ID exit=$RC"
