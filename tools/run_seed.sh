#!/bin/bash
# run_seed.sh <seed-name> <check-id> [tier]: applies /verif/seeded/<seed-name>/patch.diff to /repo,
# runs the check, and always restores /repo afterwards.
NAME=$1; ID=$2; TIER=${3:-quick}
cd /verif
git -C /repo diff --quiet || { echo "/repo has uncommitted changes"; exit 2; }
git -C /repo apply /verif/seeded/$NAME/patch.diff || { echo "patch does not apply"; exit 2; }
./bin/vcheck $ID --tier $TIER > /tmp/run_seed_$NAME.$ID.log 2>&1; RC=$?
git -C /repo checkout -- .
grep -E "^(vcheck: C|VIOLATION|KNOWN|violation class)" /tmp/run_seed_$NAME.$ID.log | head -8
echo "SEED $NAME check $ID exit=$RC"
