#!/bin/bash
# run_negative.sh <patch> [checks...]: applies a behaviour-preserving refactoring to /repo, runs the
# quick tier of the checks (all by default) and restores /repo and /verif/evidence. Any VIOLATION or
# harness error is a false alarm to investigate.
PATCH=$1; shift
CHECKS=${@:-C01 C02 C03 C04 C05 C06 C07 C08 C09 C10 C11 C12 C13 C14 C15 C16 C17 C18 C19 C20}
cd /verif
git -C /repo diff --quiet || { echo "/repo has uncommitted changes"; exit 2; }
git -C /repo apply $PATCH || { echo "patch does not apply"; exit 2; }
rm -rf /tmp/neg_keep; mkdir -p /tmp/neg_keep; cp -r evidence /tmp/neg_keep/
for c in $CHECKS; do
  ./bin/vcheck $c --tier quick > /tmp/neg_$c.log 2>&1; RC=$?
  echo "$c exit=$RC $(grep -E '^(VIOLATION|violation class|vcheck: HARNESS)' /tmp/neg_$c.log | head -3 | cut -c1-200 | tr '\n' ' ')"
done
git -C /repo checkout -- .
rm -rf evidence; cp -r /tmp/neg_keep/evidence evidence
