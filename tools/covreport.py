#!/usr/bin/env python3
"""Lists uncovered statement blocks of a Go cover profile with their source text.
usage: covreport.py profile.txt <root of the materialised module>"""
import sys, collections, os, re

prof, root = sys.argv[1], sys.argv[2]
blocks = collections.defaultdict(dict)  # file -> (sl,sc,el,ec) -> (nstmt,count)
for line in open(prof):
    if line.startswith("mode:"):
        continue
    m = re.match(r"(.+):(\d+)\.(\d+),(\d+)\.(\d+) (\d+) (\d+)", line)
    f, sl, sc, el, ec, n, c = m.groups()
    k = (int(sl), int(sc), int(el), int(ec))
    old = blocks[f].get(k, (int(n), 0))
    blocks[f][k] = (int(n), old[1] + int(c))

tot = cov = 0
out = []
for f in sorted(blocks):
    rel = f.replace("github.com/tsuna/gohbase/", "")
    path = os.path.join(root, rel)
    if "zz_verif" in rel or not os.path.exists(path):
        continue
    src = open(path).read().split("\n")
    ft = fc = 0
    unc = []
    for k, (n, c) in sorted(blocks[f].items()):
        ft += n
        if c:
            fc += n
        else:
            unc.append(k)
    tot += ft
    cov += fc
    out.append("== %s: %d/%d statements (%.1f%%)" % (rel, fc, ft, 100.0 * fc / max(ft, 1)))
    for (sl, sc, el, ec) in unc:
        text = " ".join(x.strip() for x in src[sl - 1:min(el, sl + 3)])
        out.append("   %d-%d: %s" % (sl, el, text[:160]))
print("TOTAL %d/%d statements (%.1f%%)" % (cov, tot, 100.0 * cov / max(tot, 1)))
print("\n".join(out))
