package checks

import (
	"context"
	"fmt"
	"net"
	"strings"
	"sync"
	"time"

	"github.com/tsuna/gohbase"
	"github.com/tsuna/gohbase/hrpc"
	"github.com/tsuna/gohbase/pb"
	"github.com/tsuna/gohbase/region"
	"google.golang.org/protobuf/proto"

	"verif/explore"
	"verif/sim"
	"verif/vrt"
)

// C09: concurrent failures never crash the client or strand a waiting request.

type c09Params struct {
	name    string
	layout  string     // coloc (2 regions on one server), spread (2 servers), three (3 regions on 2 servers)
	callers [][]string // per caller: keys requested in sequence
	warm    []string   // keys requested before the concurrent phase
	event   string
	evAfter int    // the event fires after that many server-side attempts (-1: immediately)
	hold    string // key whose answer is held until the event
	evStep  int    // != 0: the event interrupts at this scheduling step (-1: never, probe run)
	// debug: a further thread dumps the client's state (gohbase.DebugState, the JSON view of
	// both caches that an operator's debug endpoint serves) while all this happens
	debug bool
}

type c09Obs struct {
	errs               [][]error
	w                  *world
	unavail            []string
	lingering          []string
	stats              string
	startStep, endStep int
}

func c09Cluster(layout string) *sim.Cluster {
	cl := sim.NewCluster("rs0:1")
	switch layout {
	case "coloc":
		cl.AddTable("t", []string{"m"}, []string{"rs1:1"})
	case "three":
		cl.AddTable("t", []string{"h", "p"}, []string{"rs1:1", "rs1:1", "rs2:1"})
	default:
		cl.AddTable("t", []string{"m"}, []string{"rs1:1", "rs2:1"})
	}
	return cl
}

func c09Apply(cl *sim.Cluster, ev string) {
	ra := regionOf(cl, "t", "a")
	switch ev {
	case "":
	case "connreset":
		cl.ResetConns(ra.Server)
	case "crash-reassign":
		s := ra.Server
		to := otherServer(cl, s)
		cl.Crash(s)
		for _, x := range cl.Regions {
			if x.Server == s {
				x.Server = to
			}
		}
	case "nsre-burst":
		cl.Script[string(ra.Name())] = append(cl.Script[string(ra.Name())], sim.ClsNSRE, sim.ClsNSRE)
	case "nsre-all":
		cl.Script["t"] = append(cl.Script["t"], sim.ClsNSRE, sim.ClsNSRE, sim.ClsNSRE)
	case "split":
		cl.Split(ra, "c", ra.Server, otherServer(cl, ra.Server))
	case "split-then-opening":
		a, _ := cl.Split(ra, "c", ra.Server, otherServer(cl, ra.Server))
		cl.Script[string(a.Name())] = append(cl.Script[string(a.Name())], sim.ClsNSRE, sim.ClsRegionOpen)
	case "merge":
		rb := regionOf(cl, "t", "x")
		if ra != rb {
			for string(ra.Stop) != string(rb.Start) {
				mid := regionOf(cl, "t", string(ra.Stop))
				ra = cl.Merge(ra, mid, mid.Server)
			}
			cl.Merge(ra, rb, rb.Server)
		}
	case "server-stopped":
		cl.SrvScript[ra.Server] = append(cl.SrvScript[ra.Server], sim.ClsServerStop)
	case "move":
		cl.Move(ra, otherServer(cl, ra.Server))
	}
}

func c09Body(p c09Params, out *c09Obs) func() {
	return func() {
		*out = c09Obs{}
		cl := c09Cluster(p.layout)
		w := newWorld(cl)
		out.w = w
		for _, k := range p.warm {
			g, _ := hrpc.NewGetStr(context.Background(), "t", k)
			if _, err := w.client.Get(g); err != nil {
				panic("warm-up failed: " + err.Error())
			}
		}
		if p.hold != "" {
			cl.Hold[p.hold] = true
		}
		base := len(cl.Attempts)
		n := len(p.callers)
		out.errs = make([][]error, n)
		fin := make(chan int, n+1)
		out.startStep = vrt.Steps()
		spawn := vrt.GoNamed
		if p.evStep != 0 {
			// an interrupt: the events thread runs exactly at that step of the execution
			late := false
			tm := vrt.AfterFunc(time.Hour, func() { late = true })
			spawn = func(name string, f func()) {
				vrt.GoInterrupt(name, func() bool { return late || (p.evStep > 0 && vrt.Steps() >= p.evStep) }, func() { tm.Stop(); f() })
			}
		}
		spawn("h:events", func() {
			if p.evStep != 0 {
				if p.evStep < 0 {
					w.releaseHolds()
					vrt.Send(fin, -1)
					return
				}
			} else if p.evAfter >= 0 {
				late := false
				tm := vrt.AfterFunc(time.Hour, func() { late = true })
				vrt.Await("h:event-trigger", func() bool { return late || len(cl.Attempts)-base >= p.evAfter })
				tm.Stop()
			}
			c09Apply(cl, p.event)
			w.releaseHolds()
			vrt.Send(fin, -1)
		})
		for i, keys := range p.callers {
			i, keys := i, keys
			vrt.GoNamed(fmt.Sprintf("h:caller%d", i), func() {
				for _, k := range keys {
					g, _ := hrpc.NewGetStr(context.Background(), "t", k)
					r, err := w.client.Get(g)
					if err == nil && (len(r.Cells) != 1 || string(r.Cells[0].Value) != "v:"+k) {
						err = fmt.Errorf("wrong value for %q: %v", k, r)
					}
					out.errs[i] = append(out.errs[i], err)
				}
				out.endStep = vrt.Steps()
				vrt.Send(fin, i)
			})
		}
		if p.debug {
			vrt.GoNamed("h:debugstate", func() {
				for i := 0; i < 2; i++ {
					if _, err := gohbase.DebugState(w.client); err != nil {
						panic("DebugState: " + err.Error())
					}
				}
				vrt.Send(fin, -2)
			})
			vrt.Recv(fin)
		}
		for i := 0; i < n+1; i++ {
			vrt.Recv(fin)
		}
		// the cluster is stable now: let every establisher finish
		vrt.Sleep(30 * time.Minute)
		regs, clients := gohbase.VStats(w.client)
		for _, r := range regs {
			if r.Unavailable {
				out.unavail = append(out.unavail, r.Name)
			}
		}
		for _, t := range vrt.Threads() {
			if !harnessThread(t) {
				out.lingering = append(out.lingering, t)
			}
		}
		out.stats = fmt.Sprintf("regions=%d clients=%d", len(regs), len(clients))
		w.client.Close()
		vrt.Sleep(10 * time.Minute)
	}
}

func c09Check(p c09Params, out *c09Obs) func(res *vrt.Result) *explore.Finding {
	return func(res *vrt.Result) *explore.Finding {
		if f := baseFinding(res); f != nil {
			if strings.HasPrefix(f.Class, "step-horizon") {
				f.Class = "requests-or-establishers-never-settle"
			}
			f.Msg += "\nscenario " + p.name
			return f
		}
		if res.Deadlock {
			return &explore.Finding{Class: "request-stranded-after-failures", Msg: fmt.Sprintf("scenario %s: at quiescence blocked=%v", p.name, res.Blocked)}
		}
		for i, es := range out.errs {
			for j, e := range es {
				if e != nil {
					return &explore.Finding{Class: "request-failed-although-cluster-stable", Msg: fmt.Sprintf("scenario %s: caller %d request %d: %v", p.name, i, j, e)}
				}
			}
		}
		if len(out.unavail) > 0 {
			return &explore.Finding{Class: "cached-region-left-unavailable-at-quiescence", Msg: fmt.Sprintf("scenario %s: %v (%s); threads: %v", p.name, out.unavail, out.stats, out.lingering)}
		}
		if len(out.lingering) > 0 {
			return &explore.Finding{Class: "client-thread-still-running-at-quiescence", Msg: fmt.Sprintf("scenario %s: %v", p.name, out.lingering)}
		}
		if cb := clientBlocked(res); len(cb) > 0 {
			return &explore.Finding{Class: "client-thread-left-after-close", Msg: fmt.Sprintf("scenario %s: %v", p.name, cb)}
		}
		return nil
	}
}

func c09Units(thorough bool) []*explore.Unit {
	units := c09WDebugUnits(thorough)
	add := func(p c09Params, bound int) {
		p.name = fmt.Sprintf("%s|callers=%v|warm=%v|event=%s@%d|hold=%s%s", p.layout, p.callers, p.warm, p.event, p.evAfter, p.hold, stepSuffix(p.evStep))
		if p.debug {
			p.name += "|with a state dump"
		}
		out := &c09Obs{}
		units = append(units, &explore.Unit{Name: p.name, Bound: bound, Opt: vrt.Options{MaxSteps: 80000},
			Body: c09Body(p, out), Check: c09Check(p, out),
			Sig: func() string {
				var sb strings.Builder
				for _, es := range out.errs {
					for _, e := range es {
						sb.WriteString(errClass(e) + "/")
					}
				}
				if out.w != nil {
					fmt.Fprintf(&sb, "%s dials=%d scans=%d", out.stats, len(out.w.rcs), len(out.w.cl.MetaScans))
				}
				return sb.String()
			}})
	}
	events := []string{"connreset", "crash-reassign", "nsre-burst", "nsre-all", "split", "split-then-opening", "merge", "server-stopped", "move"}
	for _, layout := range []string{"coloc", "spread", "three"} {
		two := [][]string{{"a"}, {"x"}}
		same := [][]string{{"a"}, {"a"}}
		seq := [][]string{{"a", "x"}, {"x", "a"}}
		for _, ev := range events {
			// cold burst: callers race through lookup and establishment while the fault hits
			add(c09Params{layout: layout, callers: two, event: ev, evAfter: -1}, 2)
			add(c09Params{layout: layout, callers: same, event: ev, evAfter: -1}, 2)
			// warm cache, fault positioned after the k-th server-side attempt, one request in flight
			for k := 0; k <= 3; k++ {
				add(c09Params{layout: layout, callers: two, warm: []string{"a"}, event: ev, evAfter: k, hold: "a"}, 1)
				if thorough {
					add(c09Params{layout: layout, callers: seq, warm: []string{"a", "x"}, event: ev, evAfter: k, hold: "x"}, 2)
				}
			}
		}
		add(c09Params{layout: layout, callers: [][]string{{"a"}, {"x"}, {"a"}}, event: "connreset", evAfter: 1, hold: "a", warm: []string{"a"}}, 1)
		// the client's state dumped (DebugState) while connections are lost and regions replaced
		for _, ev := range []string{"connreset", "crash-reassign", "split", "merge"} {
			for k := 0; k <= 1; k++ {
				add(c09Params{layout: layout, callers: [][]string{{"a"}}, warm: []string{"a", "x"}, event: ev, evAfter: k, debug: true}, 2)
			}
		}
		// every event at every scheduling step of a cold burst (two callers) and of two
		// callers with region A known (vrt.GoInterrupt: the position is a unit parameter)
		for _, base := range []c09Params{{layout: layout, callers: two, evAfter: -1}, {layout: layout, callers: same, evAfter: -1}, {layout: layout, callers: two, warm: []string{"a"}, evAfter: -1}} {
			probe := base
			probe.evStep, probe.event = -1, "move"
			po := &c09Obs{}
			vrt.Tracing = true
			res, _ := explore.RunOnce(&explore.Unit{Opt: vrt.Options{MaxSteps: 80000}, Body: c09Body(probe, po)}, nil)
			vrt.Tracing = false
			nk := 0
			for i, line := range res.Trace {
				k := res.TraceSteps[i]
				name := strings.SplitN(line, " ", 2)[0]
				if k <= po.startStep || harnessThread(name) && !strings.Contains(name, ":h:caller") {
					continue
				}
				if k > po.endStep || nk >= 200 && !thorough || nk >= 400 {
					break
				}
				nk++
				for _, ev := range events {
					p := base
					p.event, p.evStep = ev, k
					b := 1
					if thorough && len(base.warm) > 0 && (ev == "connreset" || ev == "crash-reassign") {
						b = 2
					}
					add(p, b)
				}
			}
		}
		if thorough {
			for _, ev := range events {
				add(c09Params{layout: layout, callers: [][]string{{"a"}, {"x"}, {"b"}}, event: ev, evAfter: -1}, 2)
				add(c09Params{layout: layout, callers: two, event: ev, evAfter: -1}, 3)
			}
		}
	}
	return units
}

// c09Race: the same kind of scenario, free-running on real goroutines for the
// race detector (sampling).
func c09Race() []RaceBody {
	run := func(layout string, ev string) func(iter int) error {
		return func(iter int) error {
			cl := c09Cluster(layout)
			w := newWorld(cl)
			var wg sync.WaitGroup
			errs := make(chan error, 16)
			for i := 0; i < 3; i++ {
				i := i
				wg.Add(1)
				go func() {
					defer wg.Done()
					for j := 0; j < 3; j++ {
						k := []string{"a", "x", "b"}[(i+j)%3]
						ctx, cancel := context.WithTimeout(context.Background(), 20*time.Second)
						g, _ := hrpc.NewGetStr(ctx, "t", k)
						r, err := w.client.Get(g)
						cancel()
						if err != nil {
							errs <- fmt.Errorf("get %q: %v", k, err)
							return
						}
						if len(r.Cells) != 1 || string(r.Cells[0].Value) != "v:"+k {
							errs <- fmt.Errorf("get %q: wrong value", k)
							return
						}
					}
				}()
			}
			wg.Add(1)
			go func() {
				defer wg.Done()
				time.Sleep(time.Duration(iter%5) * 300 * time.Microsecond)
				vrt.HLock()
				c09Apply(cl, ev)
				vrt.HUnlock()
			}()
			wg.Wait()
			w.client.Close()
			select {
			case e := <-errs:
				return e
			default:
			}
			return nil
		}
	}
	// tier R: one real region client, two callers whose gets share a multi-request; the
	// server refuses every second multi with an exception for each region; a refused caller
	// re-resolves its call (SetRegion) and sends it again while the reader goroutine may still
	// be distributing the other region's exception
	multiRefused := func(iter int) error {
		conn := &sim.Conn{Name: "rs1:1"}
		dial := func(ctx context.Context, network, addr string) (net.Conn, error) { return conn, nil }
		rc := region.NewClient("rs1:1", region.RegionClient, 2, 50*time.Millisecond, "root", 30*time.Second, nil, dial, quietLogger)
		srv := &sim.Server{Conn: conn}
		if err := rc.Dial(context.Background()); err != nil {
			return err
		}
		multis := 0
		go srv.ServeReal(func(f *sim.Frame) []byte {
			if mr, ok := f.Req.(*pb.MultiRequest); ok {
				multis++
				if multis%2 == 1 {
					resp := &pb.MultiResponse{}
					for range mr.RegionAction {
						resp.RegionActionResult = append(resp.RegionActionResult, &pb.RegionActionResult{Exception: &pb.NameBytesPair{
							Name: proto.String("org.apache.hadoop.hbase.exceptions.RegionOpeningException"), Value: []byte("opening")}})
					}
					return sim.EncodeResponse(f.Header.GetCallId(), resp, nil, nil)
				}
			}
			resp, cells := answer(f)
			return sim.EncodeResponse(f.Header.GetCallId(), resp, nil, cells)
		})
		var wg sync.WaitGroup
		errs := make(chan error, 8)
		for g := 0; g < 2; g++ {
			g := g
			wg.Add(1)
			go func() {
				defer wg.Done()
				start := []string{"", "m"}[g]
				stop := []string{"m", ""}[g]
				key := []string{"a", "x"}[g]
				for j := 0; j < 4; j++ {
					call, _ := hrpc.NewGetStr(context.Background(), "t", fmt.Sprintf("%s%d", key, j))
					for attempt := 0; attempt < 8; attempt++ {
						call.SetRegion(region.NewInfo(uint64(attempt+1), nil, []byte("t"), []byte(fmt.Sprintf("t,%s,%d", start, attempt+1)), []byte(start), []byte(stop)))
						rc.QueueRPC(call)
						select {
						case res := <-call.ResultChan():
							if res.Error == nil {
								attempt = 99
							} else if _, ok := res.Error.(region.RetryableError); !ok {
								errs <- fmt.Errorf("get %s%d: %v (%T)", key, j, res.Error, res.Error)
								return
							}
						case <-time.After(raceWait):
							errs <- fmt.Errorf("get %s%d was never completed\n%s", key, j, allStacks())
							return
						}
					}
				}
			}()
		}
		wg.Wait()
		rc.Close()
		select {
		case e := <-errs:
			return e
		default:
		}
		return nil
	}
	return []RaceBody{
		{"region client: multi refused per region, callers re-resolve and resend", multiRefused},
		{"coloc/connreset", run("coloc", "connreset")},
		{"spread/nsre-burst", run("spread", "nsre-burst")},
		{"three/split", run("three", "split")},
		{"coloc/server-stopped", run("coloc", "server-stopped")},
	}
}

func init() {
	register(&Prop{
		Race: c09Race,
		ID:   "C09", Level: "model_checking",
		Technique:   "stateless model checking of the real top-level client (availability channels, establishers, connection cache) over a simulated cluster: concurrent callers x faults x fault positions x all schedules up to a deviation bound; plus a separate free-running -race pass of the same bodies (sampling, reported as such)",
		Rule:        "units = layout {two regions on one shared connection, on two servers, three regions on two servers} x 2-3 concurrent callers (distinct / same / crossing keys) x fault {connection reset, crash with reassignment, NSRE bursts on one region or the whole table, split, split with the daughter still opening, merge, server-stopped exception, move} x {cold burst, warm cache with one request held in flight and the fault fired after the k-th server-side attempt, k=0..3}; every schedule with <=2 deviations for cold bursts, <=1 for positioned faults (thorough: 2-3). Oracle: no panic in any thread (a double release is 'close of nil channel'), every request returns successfully, and once the cluster is stable no cached region is marked unavailable and no client thread is still running. Non-trivial = at least one non-default scheduling choice. Additionally every event fires at EVERY scheduling step of a cold burst of two callers (different regions / the same key) and of two callers with one region known, in all three layouts (vrt.GoInterrupt: the event's thread is created waiting for that step and is the default choice there, so its position is a parameter of the unit and costs no deviation), with <=1 further deviation (thorough: 400 positions, and 2 deviations for connection reset / crash with one region known).",
		Assumptions: []string{"also: the client's state dumped twice (gohbase.DebugState) while one request runs and a connection reset / crash / split / merge hits, <=2 deviations (tier L), and with real region clients while two requests run and a reset / split hits, <=1 (thorough 2) deviations (tier W); fmt.Sprintf(\"%p\") in the code under test is rewritten to per-execution serial numbers so that the dump is ordered identically in every replay", "tier L (simulated region clients)", "the data-race clause is covered only by the free-running -race pass (sampling)"},
		Quick:       150 * time.Second, Thorough: 30 * time.Minute,
		Units: c09Units,
	})
}
