package checks

import (
	"fmt"
	"time"

	"verif/explore"

	"github.com/tsuna/gohbase/region"
)

// C16: the region-name order is the component-wise order of (table, start, id).

func c16Names(thorough bool) []nameTuple {
	tables := []string{"t", "t1", "t-", "t.", "t_", "t:", "ns:t", "s", "ta", "T"}
	alpha := sigma6
	if thorough {
		// two more bytes around the id separator and the digits
		alpha = []byte{0x00, '+', ',', '-', '0', ':', 'a', 0xff}
	}
	ids := []string{"1", "10", "9", "1.x.", ":", "1700000000000.0123456789abcdef0123456789abcdef."}
	var out []nameTuple
	for _, t := range tables {
		for _, s := range stringsUpTo(alpha, 3) {
			for _, id := range ids {
				if len(s) == 3 && (id == "10" || id == "9" || len(id) > 10) {
					continue // keeps the space at ~10^8 (quick) / ~5*10^8 (thorough) pairs
				}
				out = append(out, nameTuple{[]byte(t), s, []byte(id)})
			}
		}
	}
	return out
}

func init() {
	register(&Prop{
		ID: "C16", Level: "exploration",
		Technique: "exhaustive small-scope enumeration of name pairs and triples against a tuple-order oracle (bounded model checking of the comparator's input space)",
		Rule: "all ordered pairs of region names table,start,id with 10 table names (prefixes of one another, '-', '.', '_', ':', namespaced), every start key of length <=3 over {00,'+',',','-','a',ff} (thorough: plus '0' and ':'), 6 id shapes; all triples of a 160-name subset; every lookup search key table,key,: against every name. Non-trivial = the two names differ; distinct by construction of the enumeration.",
		Assumptions: []string{"names are well formed: no comma in table name or id", "scope: start keys <=3 bytes over a 6-symbol (thorough 8-symbol) alphabet"},
		Quick:       60 * time.Second, Thorough: 10 * time.Minute,
		Direct: c16Direct,
	})
}

func c16Direct(c *Ctx) {
	names := c16Names(c.Thorough)
	raw := make([][]byte, len(names))
	for i, n := range names {
		raw[i] = n.name()
	}
	r := c.R
	var pairs, nontriv int64
	outcomes := map[string]int64{}
	fail := func(class, msg string, sample any) {
		r.Direct("pairs", true, "", &explore.Finding{Class: class, Msg: msg}, func() any { return sample })
	}
	for i := range names {
		if !r.Owns(i) {
			continue
		}
		if i%64 == 0 && r.TimeUp() {
			break
		}
		for j := range names {
			want, comp := cmpTuple(names[i], names[j])
			var got int
			if m := catch(func() { got = region.Compare(raw[i], raw[j]) }); m != "" {
				fail("compare-panic", fmt.Sprintf("Compare(%q,%q): %s", raw[i], raw[j], m), []string{q(raw[i]), q(raw[j])})
				continue
			}
			pairs++
			if i != j {
				nontriv++
			}
			outcomes[fmt.Sprintf("%s:%d", comp, sign(want))]++
			if sign(got) != sign(want) {
				fail("order-disagrees-with-tuple-order",
					fmt.Sprintf("Compare(%q, %q) = %d but (table,start,id) order gives %d (decided by %s)", raw[i], raw[j], got, want, comp),
					[]string{q(raw[i]), q(raw[j])})
			}
		}
	}
	// search keys "table,key,:" against every name (the lookup relies on this order)
	skTables := []string{"t", "t1", "ns:t", "s"}
	keys := stringsUpTo(sigma6, 2)
	idx := 0
	for _, t := range skTables {
		for _, k := range keys {
			idx++
			if !r.Owns(idx) {
				continue
			}
			sk := nameTuple{[]byte(t), k, []byte(":")}
			skr := sk.name()
			for j := range names {
				want, comp := cmpTuple(sk, names[j])
				var got int
				if m := catch(func() { got = region.Compare(skr, raw[j]) }); m != "" {
					fail("compare-panic", fmt.Sprintf("Compare(%q,%q): %s", skr, raw[j], m), []string{q(skr), q(raw[j])})
					continue
				}
				pairs++
				nontriv++
				outcomes["sk-"+comp+fmt.Sprintf(":%d", sign(want))]++
				if sign(got) != sign(want) {
					fail("searchkey-order-disagrees",
						fmt.Sprintf("Compare(searchkey %q, %q) = %d, tuple order %d", skr, raw[j], got, want), []string{q(skr), q(raw[j])})
				}
			}
		}
	}
	// transitivity / totality over all triples of a subset
	var sub [][]byte
	step := len(raw) / 160
	if step < 1 {
		step = 1
	}
	for i := 0; i < len(raw); i += step {
		sub = append(sub, raw[i])
	}
	var triples int64
	for a := range sub {
		if !r.Owns(a) {
			continue
		}
		if r.TimeUp() {
			break
		}
		for b := range sub {
			ab := sign(region.Compare(sub[a], sub[b]))
			if ab != -sign(region.Compare(sub[b], sub[a])) {
				fail("not-antisymmetric", fmt.Sprintf("Compare(%q,%q) and its converse do not have opposite signs", sub[a], sub[b]), nil)
			}
			if (ab == 0) != (a == b) {
				fail("equality-wrong", fmt.Sprintf("Compare(%q,%q)=0 iff equal violated", sub[a], sub[b]), nil)
			}
			if ab > 0 {
				continue
			}
			for cc := range sub {
				triples++
				if ab <= 0 && sign(region.Compare(sub[b], sub[cc])) <= 0 && sign(region.Compare(sub[a], sub[cc])) > 0 {
					fail("not-transitive", fmt.Sprintf("%q <= %q <= %q but first > third", sub[a], sub[b], sub[cc]), nil)
				}
			}
		}
	}
	st := &r.Stats
	st.Executions += pairs + triples
	st.NonTrivial += nontriv + triples
	for k, v := range outcomes {
		st.Outcomes[k] += v
	}
	st.Extra["pairs"] += pairs
	st.Extra["triples"] += triples
	st.Extra["names"] = int64(len(names))
	if r.Shard == 0 {
		st.Samples = append(st.Samples,
			map[string]any{"a": q(raw[1]), "b": q(raw[len(raw)/2]), "compare": region.Compare(raw[1], raw[len(raw)/2])},
			map[string]any{"a": "t,,1", "b": "t,\x00,1", "compare": region.Compare([]byte("t,,1"), []byte("t,\x00,1"))},
			map[string]any{"a": "t,,:", "b": "t1,,1", "compare": region.Compare([]byte("t,,:"), []byte("t1,,1"))})
	}
}
