// Package checks holds one scenario set per property. It is compiled only
// together with the instrumented overlay of /repo (see cmd/vcheck).
package checks

import (
	"fmt"
	"io"
	"os"
	"os/exec"
	"strings"
	"log/slog"
	"sort"
	"time"

	"verif/explore"
)

// Ctx is what a property's Run function gets.
type Ctx struct {
	R        *explore.Runner
	Thorough bool
	// Filter, when non-empty, restricts Run to the unit with that name (replay).
	Filter string
	// Isolated is set in the sub-process that runs one memory-dangerous case.
	Isolated bool
}

// RunIsolated re-executes this worker binary for one directly enumerated unit
// under a small address-space limit. It returns what happened:
// "ok", "finding: ...", or "crash: <last lines>" (fatal error / OOM / signal).
func RunIsolated(prop, unit string, limit uint64) string {
	exe, err := os.Executable()
	if err != nil {
		return "crash: " + err.Error()
	}
	cmd := exec.Command(exe, "-prop", prop, "-unit", unit, "-rlimit-as", fmt.Sprint(limit))
	cmd.Env = append(os.Environ(), "GOMAXPROCS=1", "GOTRACEBACK=single")
	out, err := cmd.CombinedOutput()
	if err == nil {
		return "ok"
	}
	if ee, ok := err.(*exec.ExitError); ok && ee.ExitCode() == 3 {
		return "finding: " + strings.TrimSpace(string(out))
	}
	s := string(out)
	if len(s) > 600 {
		s = s[:600]
	}
	return "crash: " + err.Error() + ": " + s
}

// Prop describes one property check.
type Prop struct {
	ID          string
	Level       string // evidence level category
	Technique   string
	Rule        string // how cases are enumerated and what makes one non-trivial
	Assumptions []string
	Quick       time.Duration // wall-clock budget per worker
	Thorough    time.Duration
	// Units returns the explorer units of the tier (may be nil for purely direct checks).
	Units func(thorough bool) []*explore.Unit
	// Direct runs directly enumerated cases (no scheduler); may be nil.
	Direct func(c *Ctx)
	// Race lists free-running bodies for the separate -race pass (sampling; the
	// cooperative scheduler's hand-offs would hide data races from the detector).
	Race func() []RaceBody
	// Arch32 asks for the directly enumerated part to be run a second time in a worker
	// built for GOARCH=386, where int has 32 bits: length fields read from the wire as
	// uint32 and converted to int behave differently there.
	Arch32 bool
}

// RaceBody is one free-running scenario; Run returns a functional error, if any.
type RaceBody struct {
	Name string
	Run  func(iter int) error
}

// UnitsByName finds explorer units by exact name in either tier.
func (p *Prop) UnitsByName(name string) []*explore.Unit {
	for _, th := range []bool{true, false} {
		for _, u := range p.Units(th) {
			if u.Name == name {
				return []*explore.Unit{u}
			}
		}
	}
	return nil
}

var registry = map[string]*Prop{}

func register(p *Prop) { registry[p.ID] = p }

// Get returns the property with the given id.
func Get(id string) *Prop { return registry[id] }

// IDs lists registered property ids.
func IDs() []string {
	var out []string
	for k := range registry {
		out = append(out, k)
	}
	sort.Strings(out)
	return out
}

var quietLogger = slog.New(slog.NewTextHandler(io.Discard, nil))

// SetIsolatedChild marks this process as the sub-process of RunIsolated.
func SetIsolatedChild() { isolatedChild = true }
