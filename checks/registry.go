// Package checks holds one scenario set per property. It is compiled only
// together with the instrumented overlay of /repo (see cmd/vcheck).
package checks

import (
	"io"
	"log/slog"
	"sort"
	"time"

	"verif/explore"
)

// Ctx is what a property's Run function gets.
type Ctx struct {
	R        *explore.Runner
	Thorough bool
	// Filter, when non-empty, restricts Run to the unit with that name (replay).
	Filter string
}

// Prop describes one property check.
type Prop struct {
	ID          string
	Level       string // evidence level category
	Technique   string
	Rule        string // how cases are enumerated and what makes one non-trivial
	Assumptions []string
	Quick       time.Duration // wall-clock budget per worker
	Thorough    time.Duration
	// Units returns the explorer units of the tier (may be nil for purely direct checks).
	Units func(thorough bool) []*explore.Unit
	// Direct runs directly enumerated cases (no scheduler); may be nil.
	Direct func(c *Ctx)
}

var registry = map[string]*Prop{}

func register(p *Prop) { registry[p.ID] = p }

// Get returns the property with the given id.
func Get(id string) *Prop { return registry[id] }

// IDs lists registered property ids.
func IDs() []string {
	var out []string
	for k := range registry {
		out = append(out, k)
	}
	sort.Strings(out)
	return out
}

var quietLogger = slog.New(slog.NewTextHandler(io.Discard, nil))
