package checks

import (
	"context"
	"fmt"
	"strings"
	"time"

	"github.com/tsuna/gohbase"
	"github.com/tsuna/gohbase/hrpc"

	"verif/explore"
	"verif/sim"
	"verif/vrt"
)

// C04: requests survive region and server faults; only real errors surface.

type c04Event struct {
	name string
	// wireOnly: only a real region client can notice it (read timeout on a silent server)
	wireOnly bool
	// apply mutates the cluster; it returns an expectation override for keys it affects
	apply func(cl *sim.Cluster)
}

func regionOf(cl *sim.Cluster, table, key string) *sim.Region { return cl.Owner(table, []byte(key)) }

func otherServer(cl *sim.Cluster, not string) string {
	for _, s := range []string{"rs1:1", "rs2:1", "rs3:1"} {
		if s != not && !cl.Down[s] {
			return s
		}
	}
	return "rs3:1"
}

func c04Events() []c04Event {
	tr := func(cls string, n int) c04Event {
		short := cls[strings.LastIndexByte(cls, '.')+1:]
		return c04Event{fmt.Sprintf("transient(%s x%d)", short, n), false, func(cl *sim.Cluster) {
			r := regionOf(cl, "t", "a")
			for i := 0; i < n; i++ {
				cl.Script[string(r.Name())] = append(cl.Script[string(r.Name())], cls)
			}
		}}
	}
	return []c04Event{
		{"move(A)", false, func(cl *sim.Cluster) { r := regionOf(cl, "t", "a"); cl.Move(r, otherServer(cl, r.Server)) }},
		{"move(B)", false, func(cl *sim.Cluster) { r := regionOf(cl, "t", "x"); cl.Move(r, otherServer(cl, r.Server)) }},
		{"split(A@f)", false, func(cl *sim.Cluster) {
			r := regionOf(cl, "t", "a")
			if r.Contains([]byte("f")) && string(r.Start) != "f" {
				cl.Split(r, "f", r.Server, otherServer(cl, r.Server))
			}
		}},
		{"merge(A,B)", false, func(cl *sim.Cluster) {
			a, b := regionOf(cl, "t", "a"), regionOf(cl, "t", "x")
			if a != b && string(a.Stop) == string(b.Start) {
				cl.Merge(a, b, b.Server)
			}
		}},
		tr(sim.ClsNSRE, 2), tr(sim.ClsRegionMoved, 1), tr(sim.ClsRegionOpen, 2), tr(sim.ClsTooBusy, 1), tr(sim.ClsCallQueue, 3), tr(sim.ClsThrottle, 1),
		tr("org.apache.hadoop.hbase.RetryImmediatelyException", 1), tr("org.apache.hadoop.hbase.PleaseHoldException", 1),
		{"crash(serverOf A)", false, func(cl *sim.Cluster) {
			r := regionOf(cl, "t", "a")
			s := r.Server
			to := otherServer(cl, s)
			cl.Crash(s)
			for _, x := range cl.Regions {
				if x.Server == s {
					x.Server = to
				}
			}
			if cl.MetaAddr == s {
				cl.MetaAddr = to
			}
		}},
		{"stop(serverOf A)", false, func(cl *sim.Cluster) {
			r := regionOf(cl, "t", "a")
			s := r.Server
			to := otherServer(cl, s)
			cl.SrvScript[s] = append(cl.SrvScript[s], sim.ClsServerStop)
			for _, x := range cl.Regions {
				if x.Server == s {
					x.Server = to
				}
			}
		}},
		{"abort-exception(serverOf B)", false, func(cl *sim.Cluster) {
			r := regionOf(cl, "t", "x")
			cl.SrvScript[r.Server] = append(cl.SrvScript[r.Server], sim.ClsServerAbort)
		}},
		{"connreset(serverOf A)", false, func(cl *sim.Cluster) { cl.ResetConns(regionOf(cl, "t", "a").Server) }},
		{"metamove", false, func(cl *sim.Cluster) {
			old := cl.MetaAddr
			cl.MetaAddr = "rs3:1"
			cl.ResetConns(old)
		}},
		{"meta-transient(NSRE)", false, func(cl *sim.Cluster) { cl.Script["hbase:meta,,1"] = append(cl.Script["hbase:meta,,1"], sim.ClsNSRE) }},
		{"zk-error x2", false, func(cl *sim.Cluster) { cl.ZKScript = append(cl.ZKScript, "session expired", "connection loss") }},
		// lookups that keep failing for longer than the region lookup timeout (30 s; the
		// back-off between rounds passes it after a dozen failures) and then recover: the
		// timeout bounds one round, not the whole search
		{"meta-outage(NSRE x15)", false, func(cl *sim.Cluster) {
			for i := 0; i < 15; i++ {
				cl.Script["hbase:meta,,1"] = append(cl.Script["hbase:meta,,1"], sim.ClsNSRE)
			}
		}},
		{"zk-outage x15", false, func(cl *sim.Cluster) {
			for i := 0; i < 15; i++ {
				cl.ZKScript = append(cl.ZKScript, "connection loss")
			}
		}},
		// the server of region A hangs: it accepts requests and never answers (C18's silent
		// server), its regions are reassigned; only the read timeout can tell the client
		{"hang(serverOf A)", true, func(cl *sim.Cluster) {
			r := regionOf(cl, "t", "a")
			s := r.Server
			to := otherServer(cl, s)
			cl.Silent[s] = true
			for _, x := range cl.Regions {
				if x.Server == s {
					x.Server = to
				}
			}
			if cl.MetaAddr == s {
				cl.MetaAddr = to
			}
		}},
	}
}

type c04Params struct {
	events []int  // indices into c04Events
	warm   bool   // regions located and connected before the events
	when   string // "before" the measured requests, or "concurrent" with them
	fatal  string // "", app (application exception on the request), droptable
	keys   []string
	coloc  bool // both regions of t on the same server (one shared connection)
	// inflight: only region A is warm, the request for key "a" is held in flight by a slow
	// server, and the events fire right after the evAfter-th request reached any server
	inflight bool
	evAfter  int
	wire     bool // tier W: real region clients over virtual sockets
	// when == "step": the events interrupt at scheduling step evStep (-1: never, probe run)
	evStep int
}

type c04Obs struct {
	errs               []error
	vals               []string
	calls              []hrpc.Call
	w                  *world
	done               []bool
	evLog              []string
	startStep, endStep int
}

func c04Body(p c04Params, out *c04Obs) func() {
	return func() {
		*out = c04Obs{}
		cl := stdCluster()
		if p.coloc {
			cl = sim.NewCluster("rs0:1")
			cl.AddTable("t", []string{"m"}, []string{"rs1:1"})
		}
		cl.AddTable("t2", nil, []string{"rs2:1"})
		w := newWorld(cl)
		if p.wire {
			w = newWorldW(cl, gohbase.FlushInterval(0), gohbase.RpcQueueSize(1))
		}
		out.w = w
		n := len(p.keys)
		out.errs = make([]error, n)
		out.vals = make([]string, n)
		out.calls = make([]hrpc.Call, n)
		out.done = make([]bool, n)
		evs := c04Events()
		if p.inflight {
			g, _ := hrpc.NewGetStr(context.Background(), "t", "a")
			if _, err := w.client.Get(g); err != nil {
				panic("warm-up failed: " + err.Error())
			}
			cl.Hold["a"] = true
		} else if p.warm {
			for _, k := range []string{"a", "x"} {
				g, _ := hrpc.NewGetStr(context.Background(), "t", k)
				if _, err := w.client.Get(g); err != nil {
					panic("warm-up failed: " + err.Error())
				}
			}
		}
		base := len(cl.Attempts)
		applyAll := func() {
			if p.when == "step" && p.evStep < 0 {
				return
			}
			if p.inflight {
				// fire after the evAfter-th server-side attempt, or at quiescence if fewer ever happen
				late := false
				tm := vrt.AfterFunc(time.Hour, func() { late = true })
				vrt.Await("h:event-trigger", func() bool { return late || len(cl.Attempts)-base >= p.evAfter })
				tm.Stop()
				defer w.releaseHolds()
			}
			for _, ei := range p.events {
				vrt.Yield("h:event")
				evs[ei].apply(cl)
				out.evLog = append(out.evLog, evs[ei].name)
			}
			switch p.fatal {
			case "app":
				r := regionOf(cl, "t", p.keys[0])
				cl.Script[string(r.Name())] = append(cl.Script[string(r.Name())], sim.ClsNoSuchFamily)
			case "droptable":
				cl.DropTable("t")
			}
		}
		fin := make(chan int, n+1)
		out.startStep = vrt.Steps()
		if p.when == "before" {
			applyAll()
		} else if p.when == "step" {
			// an interrupt: the events thread runs exactly at that step of the execution
			late := false
			tm := vrt.AfterFunc(time.Hour, func() { late = true })
			vrt.GoInterrupt("h:events", func() bool { return late || (p.evStep > 0 && vrt.Steps() >= p.evStep) },
				func() { tm.Stop(); applyAll(); vrt.Send(fin, -1) })
		} else {
			vrt.GoNamed("h:events", func() { applyAll(); vrt.Send(fin, -1) })
		}
		for i, k := range p.keys {
			i, k := i, k
			vrt.GoNamed(fmt.Sprintf("h:req%d", i), func() {
				if i%2 == 0 {
					g, _ := hrpc.NewGetStr(context.Background(), "t", k)
					out.calls[i] = g
					r, err := w.client.Get(g)
					out.errs[i] = err
					if err == nil && len(r.Cells) > 0 {
						out.vals[i] = string(r.Cells[0].Value)
					}
				} else {
					pt, _ := hrpc.NewPutStr(context.Background(), "t", k, map[string]map[string][]byte{"f": {"q": []byte("v")}})
					out.calls[i] = pt
					_, err := w.client.Put(pt)
					out.errs[i] = err
					out.vals[i] = "v:" + k
				}
				out.done[i] = true
				out.endStep = vrt.Steps()
				vrt.Send(fin, i)
			})
		}
		total := n
		if p.when != "before" {
			total++
		}
		for i := 0; i < total; i++ {
			vrt.Recv(fin)
		}
		w.client.Close()
		vrt.Sleep(10 * time.Minute)
	}
}

func c04Check(p c04Params, out *c04Obs) func(res *vrt.Result) *explore.Finding {
	return func(res *vrt.Result) *explore.Finding {
		desc := func() string {
			var names []string
			for _, e := range p.events {
				names = append(names, c04Events()[e].name)
			}
			return fmt.Sprintf("events=%v warm=%v when=%s fatal=%s keys=%v coloc=%v inflight=%v@%d applied=%v", names, p.warm, p.when, p.fatal, p.keys, p.coloc, p.inflight, p.evAfter, out.evLog)
		}
		if f := baseFinding(res); f != nil {
			if strings.HasPrefix(f.Class, "step-horizon") {
				f.Class = "request-never-succeeds-after-faults (retries without end)"
			}
			f.Msg += "\n" + desc()
			return f
		}
		if res.Deadlock {
			return &explore.Finding{Class: "request-blocked-forever-after-faults", Msg: fmt.Sprintf("blocked=%v\n%s", res.Blocked, desc())}
		}
		if out.w == nil {
			return nil
		}
		cl := out.w.cl
		for i, k := range p.keys {
			err := out.errs[i]
			ident := any(out.calls[i])
			if p.wire {
				ident = k // on the wire a call is identified by its row
			}
			fatalHere := (p.fatal == "app" && i == 0) || p.fatal == "droptable"
			if p.fatal == "app" && i != 0 && regionOf(cl, "t", k) == regionOf(cl, "t", p.keys[0]) {
				// the scripted application exception hits whichever request reaches that region first
				if err != nil && strings.Contains(err.Error(), "NoSuchColumnFamilyException") {
					continue
				}
			}
			if fatalHere {
				switch p.fatal {
				case "droptable":
					if err != gohbase.TableNotFound {
						// a request that completed before the table was dropped may have succeeded
						if err == nil && p.when != "before" {
							continue
						}
						return &explore.Finding{Class: "unknown-table-not-reported", Msg: fmt.Sprintf("key %q: got %v, want TableNotFound\n%s", k, err, desc())}
					}
				case "app":
					if err == nil && p.when != "before" {
						// another request consumed the scripted exception
						continue
					}
					if err == nil || !strings.Contains(err.Error(), "NoSuchColumnFamilyException") {
						return &explore.Finding{Class: "application-error-not-returned-unchanged", Msg: fmt.Sprintf("key %q: got %v\n%s", k, err, desc())}
					}
					if errClass(err) != "other(*errors.errorString)" && !strings.HasPrefix(errClass(err), "other") {
						return &explore.Finding{Class: "application-error-reclassified", Msg: fmt.Sprintf("key %q: %v (%T)\n%s", k, err, err, desc())}
					}
					if n := cl.ExecCount(ident); n != 0 && !p.wire {
						return &explore.Finding{Class: "non-retryable-error-was-retried", Msg: fmt.Sprintf("key %q executed %d times after a fatal error\n%s", k, n, desc())}
					}
				}
				continue
			}
			if err != nil {
				return &explore.Finding{Class: "request-failed-although-cluster-recovered", Msg: fmt.Sprintf("key %q: %v (%T)\n%s", k, err, err, desc())}
			}
			if out.vals[i] != "v:"+k {
				return &explore.Finding{Class: "wrong-value-after-faults", Msg: fmt.Sprintf("key %q: value %q\n%s", k, out.vals[i], desc())}
			}
			// executed exactly on a server that hosted the owning region at that time (the executor
			// refuses anything else), and at least once
			if cl.ExecCount(ident) < 1 {
				return &explore.Finding{Class: "success-without-execution", Msg: fmt.Sprintf("key %q\n%s", k, desc())}
			}
		}
		if cb := clientBlocked(res); len(cb) > 0 {
			return &explore.Finding{Class: "client-thread-left-after-close", Msg: fmt.Sprintf("%v\n%s", cb, desc())}
		}
		return nil
	}
}

func stepSuffix(k int) string {
	if k == 0 {
		return ""
	}
	return fmt.Sprintf("|at step %d", k)
}

// c04StepKs lists the scheduling steps of the event-free run at which a thread running
// client code is resumed while the requests are in progress.
func c04StepKs(p c04Params, max int) []int {
	p.when, p.evStep = "step", -1
	po := &c04Obs{}
	vrt.Tracing = true
	res, _ := explore.RunOnce(&explore.Unit{Opt: vrt.Options{MaxSteps: 60000}, Body: c04Body(p, po)}, nil)
	vrt.Tracing = false
	var ks []int
	for i, line := range res.Trace {
		k := res.TraceSteps[i]
		name := strings.SplitN(line, " ", 2)[0]
		if k <= po.startStep || harnessThread(name) && !strings.Contains(name, ":h:req") {
			continue
		}
		if k > po.endStep || len(ks) >= max {
			break
		}
		ks = append(ks, k)
	}
	return ks
}

// c04BatchUnits: the calls of a batch are requests too. Two calls, the first with a context
// of its own that is cancelled at every scheduling step of SendBatch (interrupt units), the
// regions answering "not serving" once or twice so that the calls are re-located and sent
// again: the call whose context stays alive must succeed, whatever happens to the other.
func c04BatchUnits(thorough bool) []*explore.Unit {
	var units []*explore.Unit
	for _, layout := range []string{"spread", "coloc"} {
		for _, keys := range [][]string{{"a", "x"}, {"a", "b"}} {
			for _, scripts := range [][]string{{"N", "N"}, {"N", ""}, {"", "N"}, {"NN", "N"}, {"D", "N"}} {
				base := batchParams{layout: layout, keys: keys, kinds: []string{"get", "inc"}, scripts: scripts, event: "cancel-call", evStep: -1, ownCtx: 0}
				probe := &batchObs{}
				vrt.Tracing = true
				res, _ := explore.RunOnce(&explore.Unit{Opt: vrt.Options{MaxSteps: 60000}, Body: batchBody(base, probe)}, nil)
				vrt.Tracing = false
				for i, line := range res.Trace {
					k := res.TraceSteps[i]
					if k <= probe.startStep || harnessThread(strings.SplitN(line, " ", 2)[0]) {
						continue
					}
					if k > probe.endStep {
						break
					}
					p := base
					p.evStep = k
					out := &batchObs{}
					u := &explore.Unit{Name: "batch|" + p.String(), Bound: 0, Opt: vrt.Options{MaxSteps: 60000}, Body: batchBody(p, out), Sig: batchSig(out)}
					u.Check = func(r *vrt.Result) *explore.Finding {
						if f := baseFinding(r); f != nil {
							if strings.HasPrefix(f.Class, "step-horizon") {
								f.Class = "request-never-succeeds-after-faults (retries without end)"
							}
							f.Msg += "\n" + p.String()
							return f
						}
						if r.Deadlock {
							return &explore.Finding{Class: "request-blocked-forever-after-faults", Msg: fmt.Sprintf("blocked=%v\n%s", r.Blocked, p)}
						}
						if len(out.res) != 2 {
							return &explore.Finding{Class: "wrong-number-of-results", Msg: p.String()}
						}
						// call 1 has a live context and only retryable outcomes in its script
						if e := out.res[1].Error; e != nil {
							return &explore.Finding{Class: "live-call-of-a-batch-fails-with-a-retryable-error", Msg: fmt.Sprintf("res[1] (%s %s, context alive) = %v (%T); res[0] = %v\n%s", p.kinds[1], p.keys[1], e, e, out.res[0].Error, p)}
						}
						if !payloadOK(p.kinds[1], p.keys[1], out.res[1].Msg) {
							return &explore.Finding{Class: "wrong-value-after-faults", Msg: p.String()}
						}
						if e := out.res[0].Error; e != nil && !isCtxErr(e) {
							return &explore.Finding{Class: "cancelled-call-returns-non-context-error", Msg: fmt.Sprintf("res[0] = %v (%T)\n%s", e, e, p)}
						}
						return nil
					}
					units = append(units, u)
				}
			}
		}
	}
	return units
}

func c04Units(thorough bool) []*explore.Unit {
	units := append(c04AdminUnits(thorough), c04BatchUnits(thorough)...)
	evs := c04Events()
	add := func(p c04Params, bound int) {
		for _, e := range p.events {
			if evs[e].wireOnly && !p.wire {
				return
			}
		}
		out := &c04Obs{}
		var names []string
		for _, e := range p.events {
			names = append(names, evs[e].name)
		}
		units = append(units, &explore.Unit{
			Name: fmt.Sprintf("events=%v|warm=%v|when=%s|fatal=%s|keys=%v|coloc=%v|inflight=%v@%d|wire=%v%s", names, p.warm, p.when, p.fatal, p.keys, p.coloc, p.inflight, p.evAfter, p.wire, stepSuffix(p.evStep)), Bound: bound,
			Opt: vrt.Options{MaxSteps: 60000}, Body: c04Body(p, out), Check: c04Check(p, out),
			Sig: func() string {
				var sb strings.Builder
				for i := range out.errs {
					sb.WriteString(errClass(out.errs[i]) + "/")
				}
				if out.w != nil {
					fmt.Fprintf(&sb, "execs=%d metascans=%d dials=%d", len(out.w.cl.Log), len(out.w.cl.MetaScans), len(out.w.cl.Dials))
				}
				return sb.String()
			}})
	}
	keysets := [][]string{{"a"}, {"a", "x"}}
	// every single event and every ordered pair of events
	var scripts [][]int
	scripts = append(scripts, nil)
	for i := range evs {
		scripts = append(scripts, []int{i})
	}
	for i := range evs {
		for j := range evs {
			scripts = append(scripts, []int{i, j})
		}
	}
	if thorough {
		for i := 0; i < len(evs); i += 2 {
			for j := 1; j < len(evs); j += 3 {
				for k := 0; k < len(evs); k += 4 {
					scripts = append(scripts, []int{i, j, k})
				}
			}
		}
	}
	// two regions behind one shared connection, faults concurrent with cold-cache establishment
	for i, e := range evs {
		if strings.HasPrefix(e.name, "connreset") || strings.HasPrefix(e.name, "crash") || strings.HasPrefix(e.name, "stop") ||
			strings.HasPrefix(e.name, "abort") || strings.HasPrefix(e.name, "move(A)") || strings.HasPrefix(e.name, "transient(NotServing") {
			for _, warm := range []bool{false, true} {
				add(c04Params{events: []int{i}, warm: warm, when: "concurrent", keys: []string{"a", "x"}, coloc: true}, 2)
				add(c04Params{events: []int{i}, warm: warm, when: "before", keys: []string{"a", "x"}, coloc: true}, 1)
			}
		}
	}
	// the same single events end to end on the wire (real region clients, virtual sockets)
	for i := range evs {
		for _, coloc := range []bool{false, true} {
			add(c04Params{events: []int{i}, warm: true, when: "before", keys: []string{"a", "x"}, coloc: coloc, wire: true}, 0)
			b := 1
			if thorough {
				b = 2
			}
			add(c04Params{events: []int{i}, warm: true, when: "concurrent", keys: []string{"a", "x"}, coloc: coloc, wire: true}, b)
		}
	}
	for _, fatal := range []string{"app", "droptable"} {
		add(c04Params{warm: true, when: "before", fatal: fatal, keys: []string{"a", "x"}, wire: true}, 0)
	}
	// a request in flight on a shared connection while the other region is being established
	for i, e := range evs {
		if strings.HasPrefix(e.name, "connreset") || strings.HasPrefix(e.name, "crash") || strings.HasPrefix(e.name, "stop") ||
			strings.HasPrefix(e.name, "move(B)") || strings.HasPrefix(e.name, "transient(NotServing") {
			for k := 0; k <= 5; k++ {
				for _, coloc := range []bool{true, false} {
					b := 1
					if thorough {
						b = 2
					}
					add(c04Params{events: []int{i}, when: "concurrent", keys: []string{"a", "x"}, coloc: coloc, inflight: true, evAfter: k}, b)
				}
			}
		}
	}
	// every single event at every scheduling step of two requests in progress
	// (vrt.GoInterrupt: the position of the event is a unit parameter)
	for _, coloc := range []bool{false, true} {
		// the same on the wire: real region clients, so also every step inside their send
		// and receive paths (default schedule after the event, thorough <=1 deviation for the hard events)
		for _, warm := range []bool{true, false} {
			base := c04Params{warm: warm, keys: []string{"a", "x"}, coloc: coloc, wire: true}
			for _, k := range c04StepKs(base, 400) {
				for i, e := range evs {
					p := base
					p.when, p.evStep, p.events = "step", k, []int{i}
					b := 0
					if thorough && (strings.HasPrefix(e.name, "connreset") || strings.HasPrefix(e.name, "crash") || strings.HasPrefix(e.name, "move(A)")) {
						b = 1
					}
					add(p, b)
				}
			}
		}
	}
	for _, coloc := range []bool{false, true} {
		for _, warm := range []bool{false, true} {
			base := c04Params{warm: warm, keys: []string{"a", "x"}, coloc: coloc}
			maxK := 150
			if thorough {
				maxK = 400
			}
			for _, k := range c04StepKs(base, maxK) {
				for i, e := range evs {
					p := base
					p.when, p.evStep, p.events = "step", k, []int{i}
					b := 1
					hard := strings.HasPrefix(e.name, "connreset") || strings.HasPrefix(e.name, "crash") || strings.HasPrefix(e.name, "move(A)")
					if thorough && hard && warm {
						b = 2 // (warm cache: the short runs, where a second deviation completes)
					}
					add(p, b)
				}
			}
		}
	}
	for _, sc := range scripts {
		for _, ks := range keysets {
			for _, warm := range []bool{true, false} {
				if !warm && len(sc) > 1 && !thorough {
					continue
				}
				add(c04Params{events: sc, warm: warm, when: "before", keys: ks}, 0)
				if len(sc) <= 1 || thorough {
					b := 1
					if thorough && len(sc) <= 1 {
						b = 2
					}
					add(c04Params{events: sc, warm: warm, when: "concurrent", keys: ks}, b)
				}
			}
		}
		if len(sc) <= 1 {
			for _, fatal := range []string{"app", "droptable"} {
				add(c04Params{events: sc, warm: true, when: "before", fatal: fatal, keys: []string{"a", "x"}}, 0)
				add(c04Params{events: sc, warm: true, when: "concurrent", fatal: fatal, keys: []string{"a"}}, 1)
			}
		}
	}
	return units
}

func init() {
	register(&Prop{
		ID: "C04", Level: "model_checking",
		Technique:   "stateless model checking of the real top-level client over a simulated cluster: every fault script of bounded length x cache warm/cold x event position (before / concurrent, schedules up to a deviation bound), with the cluster's executor as server-side observer",
		Rule:        "fault scripts = every sequence of <=2 (thorough: sampled 3) events from a 22-event menu {lookups refused by hbase:meta or ZooKeeper fifteen times in a row (longer than the region lookup timeout), move, split, merge, transient NSRE / RegionMoved / RegionOpening / TooBusy / CallQueueTooBig / Throttling / RetryImmediately / PleaseHold bursts, server crash with reassignment, server-stopped and server-aborted exceptions, connection reset, meta move, meta NSRE, ZooKeeper errors; on tier W also a server that hangs (accepts requests, never answers) with its regions reassigned} x {1,2} requests (get/put) x cache warm or cold x events applied before the requests (default schedule) or concurrently (all schedules with <=1 deviation, thorough <=2); plus application exception and dropped table. Oracle: every request succeeds with its own value and was executed by a server hosting the owning region at that time (the executor refuses stale region names); fatal errors are returned unchanged and not re-executed. Non-trivial = non-default schedule or non-empty script. Additionally every single event of the menu fires at EVERY scheduling step of a thread running client code while two requests are in progress, cache cold and warm, two servers and one shared connection, on tier L (<=1 further deviation, thorough 2 for connection reset / crash / move on a warm cache) and on tier W (vrt.GoInterrupt: the event's thread is created waiting for that step and is the default choice there, so its position is a parameter of the unit and costs no deviation). Batches: two calls, the first with its own context cancelled at EVERY scheduling step of SendBatch, regions answering not-serving once or twice or a dropped connection: the call whose context stays alive must succeed.",
		Assumptions: []string{"tier L: region clients are simulated (their internals are C02/C03/C18's subject); the simulated cluster only shows behaviour a real HBase cluster can show", "after the script the cluster is stable"},
		Quick:       150 * time.Second, Thorough: 25 * time.Minute,
		Units: c04Units,
	})
}

// ---- administrative calls when the active master moves or restarts

type c04AdminParams struct {
	event string // "", master-move, master-restart, master-stopped, not-running-yet, zk-error, move+zk-error
	when  string // before | concurrent
	warm  bool
}

func c04AdminUnits(thorough bool) []*explore.Unit {
	var units []*explore.Unit
	for _, ev := range []string{"", "master-move", "master-restart", "master-stopped", "not-running-yet", "zk-error", "move+zk-error", "please-hold"} {
		for _, when := range []string{"before", "concurrent"} {
			for _, warm := range []bool{true, false} {
				p := c04AdminParams{event: ev, when: when, warm: warm}
				var w *world
				var errs [2]error
				var prev bool
				b := 0
				if when == "concurrent" {
					b = 1
					if thorough {
						b = 2
					}
				}
				name := fmt.Sprintf("admin|event=%s|when=%s|warm=%v", ev, when, warm)
				u := &explore.Unit{Name: name, Bound: b, Opt: vrt.Options{MaxSteps: 60000}}
				u.Body = func() {
					cl := stdCluster()
					var ac gohbase.AdminClient
					w, ac = newAdminWorld(cl)
					errs = [2]error{}
					if p.warm {
						if _, err := ac.ClusterStatus(); err != nil {
							panic("warm-up failed: " + err.Error())
						}
					}
					apply := func() {
						vrt.Yield("h:event")
						old := cl.MasterAddr
						switch p.event {
						case "master-move":
							cl.MasterAddr = "master2:16000"
							cl.Crash(old)
						case "master-restart":
							cl.ResetConns(old)
						case "master-stopped":
							cl.SrvScript[old] = append(cl.SrvScript[old], sim.ClsMasterStopped)
						case "not-running-yet":
							cl.SrvScript[old] = append(cl.SrvScript[old], sim.ClsNotRunningYet, sim.ClsNotRunningYet)
						case "please-hold":
							cl.SrvScript[old] = append(cl.SrvScript[old], sim.ClsPleaseHold)
						case "zk-error":
							cl.ZKScript = append(cl.ZKScript, "connection loss", "session expired")
						case "move+zk-error":
							cl.MasterAddr = "master2:16000"
							cl.ResetConns(old) // the old master stays up as a backup master
							cl.ZKScript = append(cl.ZKScript, "connection loss")
						}
					}
					fin := make(chan int, 3)
					n := 2
					if p.when == "before" {
						apply()
					} else {
						n = 3
						vrt.GoNamed("h:events", func() { apply(); vrt.Send(fin, -1) })
					}
					vrt.GoNamed("h:admin0", func() {
						_, errs[0] = ac.ClusterStatus()
						vrt.Send(fin, 0)
					})
					vrt.GoNamed("h:admin1", func() {
						sb, _ := hrpc.NewSetBalancer(context.Background(), true)
						prev, errs[1] = ac.SetBalancer(sb)
						vrt.Send(fin, 1)
					})
					for i := 0; i < n; i++ {
						vrt.Recv(fin)
					}
					// the AdminClient interface has no Close: the client is simply dropped
					vrt.Sleep(10 * time.Minute)
				}
				u.Check = func(res *vrt.Result) *explore.Finding {
					if f := baseFinding(res); f != nil {
						if strings.HasPrefix(f.Class, "step-horizon") {
							f.Class = "admin-call-never-succeeds-after-master-change"
						}
						f.Msg += "\n" + name
						return f
					}
					if res.Deadlock {
						return &explore.Finding{Class: "admin-call-blocked-forever", Msg: fmt.Sprintf("%v\n%s", res.Blocked, name)}
					}
					for i, e := range errs {
						if e != nil {
							return &explore.Finding{Class: "admin-call-failed-although-master-available", Msg: fmt.Sprintf("call %d: %v (%T)\n%s", i, e, e, name)}
						}
					}
					_ = prev
					execs := 0
					for _, e := range w.cl.Log {
						if e.Region == "master" {
							execs++
							if e.Server != "master:16000" && e.Server != "master2:16000" {
								return &explore.Finding{Class: "admin-call-executed-by-non-master", Msg: fmt.Sprintf("%v\n%s", e, name)}
							}
						}
					}
					if execs < 2 {
						return &explore.Finding{Class: "admin-success-without-execution", Msg: name}
					}
					return nil
				}
				units = append(units, u)
			}
		}
	}
	return units
}
