package checks

import (
	"bytes"
	"context"
	"fmt"
	"strings"
	"time"

	"github.com/tsuna/gohbase/compression"
	"github.com/tsuna/gohbase/hrpc"
	"github.com/tsuna/gohbase/pb"
	"github.com/tsuna/gohbase/region"
	"google.golang.org/protobuf/proto"

	"verif/explore"
	"verif/sim"
	"verif/vrt"
)

// C02: each caller receives the response to its own request.

type c02Params struct {
	mix      string
	calls    []callSpec
	cfg      rigCfg
	hold     bool   // server holds all requests, then answers in every order
	excKind  string // "", action, region
	excKey   string // key of the action / any key of the region that gets the exception
	excClass string
	// prelude: before the mix, a full batch of calls that cannot be marshalled (gets without a
	// row key) is queued; the client must report the error to those calls only and carry on
	prelude bool
}

type c02Obs struct {
	res    []hrpc.RPCResult
	got    []bool
	frames int
	errors []string
}

func c02CellCount(key string) int { return int(key[len(key)-1]-'0') % 3 }

func c02Cells(key []byte) []sim.KV {
	var out []sim.KV
	for i := 0; i < c02CellCount(string(key)); i++ {
		out = append(out, sim.KV{Row: key, Family: []byte("f"), Qualifier: []byte{byte('a' + i)},
			Value: []byte(fmt.Sprintf("v:%s:%d", key, i)), TS: 7, Type: 4})
	}
	return out
}

func factorial(n int) int {
	f := 1
	for i := 2; i <= n; i++ {
		f *= i
	}
	return f
}

// permutation returns the k-th permutation of 0..n-1 (k=0 is the identity).
func permutation(n, k int) []int {
	items := make([]int, n)
	for i := range items {
		items[i] = i
	}
	out := make([]int, 0, n)
	for i := n; i > 0; i-- {
		f := factorial(i - 1)
		j := k / f
		k %= f
		out = append(out, items[j])
		items = append(items[:j], items[j+1:]...)
	}
	return out
}

func regionOfKey(key string) string {
	if key < "m" {
		return "A"
	}
	return "B"
}

func c02Body(p c02Params, out *c02Obs) func() {
	return func() {
		*out = c02Obs{}
		r := newRig(p.cfg)
		comp := p.cfg.Codec != nil
		r.srv.Compressed = comp
		regA := region.NewInfo(1, nil, []byte("t"), []byte("t,,1"), nil, []byte("m"))
		regB := region.NewInfo(2, nil, []byte("t"), []byte("t,m,2"), []byte("m"), nil)
		n := len(p.calls)
		calls := make([]hrpc.Call, n)
		for i, s := range p.calls {
			calls[i], _ = r.mkCall(s)
			if regionOfKey(s.Key) == "A" {
				calls[i].SetRegion(regA)
			} else {
				calls[i].SetRegion(regB)
			}
		}
		out.res = make([]hrpc.RPCResult, n)
		out.got = make([]bool, n)
		arrived := 0
		var held []*sim.Frame
		excFor := func(row []byte) *pb.NameBytesPair {
			if p.excKind == "action" && string(row) == p.excKey {
				return &pb.NameBytesPair{Name: proto.String(p.excClass), Value: []byte("exc-for-" + string(row))}
			}
			return nil
		}
		respond := func(s *sim.Server, f *sim.Frame) {
			id := f.Header.GetCallId()
			switch req := f.Req.(type) {
			case *pb.GetRequest:
				row := req.GetGet().GetRow()
				if e := excFor(row); e != nil {
					s.Send(sim.EncodeResponseC(id, nil, sim.Exc(e.GetName(), string(e.Value)), nil, comp))
					return
				}
				cells := c02Cells(row)
				s.Send(sim.EncodeResponseC(id, &pb.GetResponse{Result: &pb.Result{AssociatedCellCount: proto.Int32(int32(len(cells)))}}, nil, cells, comp))
			case *pb.MutateRequest:
				row := req.GetMutation().GetRow()
				if e := excFor(row); e != nil {
					s.Send(sim.EncodeResponseC(id, nil, sim.Exc(e.GetName(), string(e.Value)), nil, comp))
					return
				}
				s.Send(sim.EncodeResponseC(id, &pb.MutateResponse{Processed: proto.Bool(true)}, nil, nil, comp))
			case *pb.MultiRequest:
				mr := &pb.MultiResponse{}
				var cells []sim.KV
				for _, ra := range req.RegionAction {
					rar := &pb.RegionActionResult{}
					rname := string(ra.GetRegion().GetValue())
					if p.excKind == "region" && ((regionOfKey(p.excKey) == "A") == (rname == "t,,1")) {
						rar.Exception = &pb.NameBytesPair{Name: proto.String(p.excClass), Value: []byte("exc-for-region-" + regionOfKey(p.excKey))}
						mr.RegionActionResult = append(mr.RegionActionResult, rar)
						continue
					}
					perm := permutation(len(ra.Action), vrt.Choose(factorial(len(ra.Action)), "multi-result-order", 0))
					for _, ai := range perm {
						a := ra.Action[ai]
						var row []byte
						if a.Get != nil {
							row = a.Get.GetRow()
						} else {
							row = a.Mutation.GetRow()
						}
						if e := excFor(row); e != nil {
							rar.ResultOrException = append(rar.ResultOrException, &pb.ResultOrException{Index: a.Index, Exception: e})
							continue
						}
						if a.Get != nil {
							cs := c02Cells(row)
							cells = append(cells, cs...)
							rar.ResultOrException = append(rar.ResultOrException, &pb.ResultOrException{Index: a.Index,
								Result: &pb.Result{AssociatedCellCount: proto.Int32(int32(len(cs)))}})
						} else {
							rar.ResultOrException = append(rar.ResultOrException, &pb.ResultOrException{Index: a.Index, Result: &pb.Result{}})
						}
					}
					mr.RegionActionResult = append(mr.RegionActionResult, rar)
				}
				s.Send(sim.EncodeResponseC(id, mr, nil, cells, comp))
			}
		}
		r.srv.OnFrame = func(s *sim.Server, f *sim.Frame) {
			out.frames++
			switch req := f.Req.(type) {
			case *pb.MultiRequest:
				for _, ra := range req.RegionAction {
					arrived += len(ra.Action)
				}
			default:
				arrived++
			}
			if !p.hold {
				respond(s, f)
				return
			}
			held = append(held, f)
			if arrived == n {
				perm := permutation(len(held), vrt.Choose(factorial(len(held)), "response-order", 0))
				for _, i := range perm {
					respond(s, held[i])
				}
			}
		}
		if err := r.rc.Dial(context.Background()); err != nil {
			panic(err)
		}
		vrt.GoNamed("h:server", r.srv.Run)
		if p.prelude {
			var bad []hrpc.Call
			for i := 0; i < p.cfg.QueueSize; i++ {
				g, err := hrpc.NewGet(context.Background(), []byte("t"), nil)
				if err != nil {
					break
				}
				g.SetRegion(regA)
				bad = append(bad, g)
				r.rc.QueueRPC(g)
			}
			for _, g := range bad {
				if res := vrt.Recv(g.ResultChan()); res.Error == nil {
					out.errors = append(out.errors, "a get without a row key was reported as successful")
				}
			}
		}
		fin := make(chan int, n)
		for i := range calls {
			i := i
			vrt.GoNamed(fmt.Sprintf("h:caller%d", i), func() {
				r.rc.QueueRPC(calls[i])
				out.res[i] = vrt.Recv(calls[i].ResultChan())
				out.got[i] = true
				vrt.Send(fin, i)
			})
		}
		for i := 0; i < n; i++ {
			vrt.Recv(fin)
		}
		r.rc.Close()
		vrt.Sleep(time.Minute)
		out.errors = append(out.errors, r.srv.Errors...)
		r.srv.Stop = true
	}
}

func c02Check(p c02Params, out *c02Obs) func(res *vrt.Result) *explore.Finding {
	return func(res *vrt.Result) *explore.Finding {
		if f := baseFinding(res); f != nil {
			return f
		}
		ctx := fmt.Sprintf("mix=%s hold=%v exc=%s:%s", p.mix, p.hold, p.excKind, p.excKey)
		if len(out.errors) > 0 {
			return nil // corrupted byte stream (interleaved senders): judged by C05
		}
		if res.Deadlock {
			return &explore.Finding{Class: "caller-never-answered", Msg: fmt.Sprintf("blocked=%v\n%s", res.Blocked, ctx)}
		}
		for i, s := range p.calls {
			rr := out.res[i]
			wantExc := (p.excKind == "action" && p.excKey == s.Key) ||
				(p.excKind == "region" && regionOfKey(p.excKey) == regionOfKey(s.Key) && !s.SkipBatch && p.cfg.QueueSize > 1)
			if wantExc {
				marker := "exc-for-" + s.Key
				if p.excKind == "region" {
					marker = "exc-for-region-" + regionOfKey(s.Key)
				}
				if rr.Error == nil || !strings.Contains(rr.Error.Error(), marker) || !strings.Contains(rr.Error.Error(), p.excClass) {
					return &explore.Finding{Class: "exception-not-delivered-to-its-call", Msg: fmt.Sprintf("call %d (%s %s): want exception %q, got msg=%v err=%v\n%s", i, s.Kind, s.Key, marker, rr.Msg, rr.Error, ctx)}
				}
				continue
			}
			if rr.Error != nil {
				return &explore.Finding{Class: "foreign-error-delivered", Msg: fmt.Sprintf("call %d (%s %s) got error %v that was not produced for it\n%s", i, s.Kind, s.Key, rr.Error, ctx)}
			}
			switch s.Kind {
			case "get":
				gr, ok := rr.Msg.(*pb.GetResponse)
				if !ok {
					return &explore.Finding{Class: "wrong-response-type", Msg: fmt.Sprintf("call %d (get %s) got %T\n%s", i, s.Key, rr.Msg, ctx)}
				}
				want := c02Cells([]byte(s.Key))
				cells := gr.GetResult().GetCell()
				bad := len(cells) != len(want)
				for j := 0; !bad && j < len(want); j++ {
					if !bytes.Equal(cells[j].Row, want[j].Row) || !bytes.Equal(cells[j].Value, want[j].Value) || !bytes.Equal(cells[j].Qualifier, want[j].Qualifier) {
						bad = true
					}
				}
				if bad {
					return &explore.Finding{Class: "caller-received-foreign-or-mixed-cells", Msg: fmt.Sprintf("call %d (get %s): want %d cells of its own row, got %v\n%s", i, s.Key, len(want), cells, ctx)}
				}
			case "put":
				if _, ok := rr.Msg.(*pb.MutateResponse); !ok {
					return &explore.Finding{Class: "wrong-response-type", Msg: fmt.Sprintf("call %d (put %s) got %T\n%s", i, s.Key, rr.Msg, ctx)}
				}
				if mr := rr.Msg.(*pb.MutateResponse); len(mr.GetResult().GetCell()) != 0 {
					return &explore.Finding{Class: "caller-received-foreign-or-mixed-cells", Msg: fmt.Sprintf("call %d (put %s) got cells %v\n%s", i, s.Key, mr.GetResult().GetCell(), ctx)}
				}
			}
		}
		if cb := clientBlocked(res); len(cb) > 0 {
			return &explore.Finding{Class: "client-thread-left-blocked", Msg: fmt.Sprintf("%v\n%s", cb, ctx)}
		}
		return nil
	}
}

func c02Units(thorough bool) []*explore.Unit {
	type mix struct {
		name  string
		calls []callSpec
		cfg   rigCfg
	}
	mixes := []mix{
		{"2direct", []callSpec{{Kind: "get", Key: "a1", SkipBatch: true}, {Kind: "get", Key: "z2", SkipBatch: true}}, rigCfg{QueueSize: 1}},
		{"multi3-2regions", []callSpec{{Kind: "get", Key: "a1"}, {Kind: "get", Key: "z2"}, {Kind: "get", Key: "a0"}}, rigCfg{QueueSize: 3}},
		{"multi2+direct", []callSpec{{Kind: "get", Key: "a2"}, {Kind: "put", Key: "a1"}, {Kind: "get", Key: "z1", SkipBatch: true}}, rigCfg{QueueSize: 2}},
		{"multi-timer", []callSpec{{Kind: "get", Key: "a1"}, {Kind: "get", Key: "z2"}}, rigCfg{QueueSize: 4, Flush: 5 * time.Millisecond}},
		// several cell-carrying results of ONE region (equal and different cell counts): only here does a
		// permuted result order move one caller's cells in the trailing cellblock (seeded change C02d)
		{"multi3-1region-cells", []callSpec{{Kind: "get", Key: "a1"}, {Kind: "get", Key: "b1"}, {Kind: "get", Key: "c2"}}, rigCfg{QueueSize: 3}},
		{"multi4-2regions-cells", []callSpec{{Kind: "get", Key: "a2"}, {Kind: "get", Key: "z1"}, {Kind: "get", Key: "b1"}, {Kind: "get", Key: "y2"}}, rigCfg{QueueSize: 4}},
	}
	snappy := compression.New("snappy")
	mixes = append(mixes,
		mix{"2direct-snappy", []callSpec{{Kind: "get", Key: "a1", SkipBatch: true}, {Kind: "get", Key: "z2", SkipBatch: true}}, rigCfg{QueueSize: 1, Codec: snappy}},
		mix{"multi2+direct-snappy", []callSpec{{Kind: "get", Key: "a2"}, {Kind: "put", Key: "a1"}, {Kind: "get", Key: "z1", SkipBatch: true}}, rigCfg{QueueSize: 2, Codec: snappy}},
		mix{"multi3-1region-cells-snappy", []callSpec{{Kind: "get", Key: "a1"}, {Kind: "get", Key: "b2"}, {Kind: "get", Key: "c1"}}, rigCfg{QueueSize: 3, Codec: snappy}})
	if thorough {
		mixes = append(mixes,
			mix{"3direct", []callSpec{{Kind: "get", Key: "a1", SkipBatch: true}, {Kind: "get", Key: "z2", SkipBatch: true}, {Kind: "put", Key: "a2", SkipBatch: true}}, rigCfg{QueueSize: 1}},
			mix{"two-multis", []callSpec{{Kind: "get", Key: "a1"}, {Kind: "get", Key: "z2"}, {Kind: "get", Key: "a2"}, {Kind: "put", Key: "z1"}}, rigCfg{QueueSize: 2}})
	}
	bound := 1
	if thorough {
		bound = 2
	}
	var units []*explore.Unit
	for _, m := range mixes {
		type exc struct{ kind, key, class string }
		excs := []exc{{"", "", ""}}
		for _, c := range m.calls {
			excs = append(excs, exc{"action", c.Key, "java.io.IOException"})
		}
		excs = append(excs, exc{"action", m.calls[0].Key, "org.apache.hadoop.hbase.NotServingRegionException"},
			exc{"region", "a", "org.apache.hadoop.hbase.NotServingRegionException"}, exc{"region", "z", "java.io.IOException"})
		for _, e := range excs {
			for _, hold := range []bool{true, false} {
				if !hold && e.kind != "" && !thorough {
					continue
				}
				p := c02Params{mix: m.name, calls: m.calls, cfg: m.cfg, hold: hold, excKind: e.kind, excKey: e.key, excClass: e.class}
				out := &c02Obs{}
				units = append(units, &explore.Unit{
					Name: fmt.Sprintf("%s|hold=%v|exc=%s:%s:%s", m.name, hold, e.kind, e.key, e.class), Bound: c02Bound(thorough, bound, len(m.calls), e.kind),
					Opt: vrt.Options{MaxSteps: 20000}, Body: c02Body(p, out), Check: c02Check(p, out),
					Sig: func() string {
						var sb strings.Builder
						for i := range out.res {
							fmt.Fprintf(&sb, "%s/", errClass(out.res[i].Error))
						}
						fmt.Fprintf(&sb, "frames=%d", out.frames)
						return sb.String()
					},
				})
			}
		}
	}
	// after a batch that could not be sent (see prelude): batched mixes, both answer modes
	for _, m := range mixes {
		if m.cfg.QueueSize < 2 {
			continue
		}
		for _, hold := range []bool{true, false} {
			p := c02Params{mix: m.name, calls: m.calls, cfg: m.cfg, hold: hold, prelude: true}
			out := &c02Obs{}
			units = append(units, &explore.Unit{
				Name: fmt.Sprintf("%s|hold=%v|after an unsendable batch", m.name, hold), Bound: bound,
				Opt: vrt.Options{MaxSteps: 20000}, Body: c02Body(p, out), Check: c02Check(p, out)})
		}
	}
	return units
}

func init() {
	register(&Prop{
		ID: "C02", Level: "model_checking",
		Technique: "stateless model checking of the real region client: all schedules up to a deviation bound x all response permutations x all result permutations inside multi-responses x exception placements, with key-derived payloads as oracle",
		Rule: "units = call mix (2-4 callers; direct, one multi over two regions, a multi with three cell-carrying gets of one region, a multi with two cell-carrying gets in each of two regions, multi + direct, timer-flushed multi) x server policy {hold everything then answer in every permutation, answer on arrival} x exception placement {none, each action, a whole region}; inside every multi-response the result order of each region is permuted (all permutations, cost 0) and the trailing cellblock follows that order with 0/1/2 cells per result; schedules with <=1 (thorough <=2) deviations. Oracle: the caller of key k gets exactly the cells / exception generated for k. Non-trivial = at least one non-default choice (schedule or permutation).",
		Assumptions: []string{"server keeps RegionActionResult order equal to the request's RegionAction order (HBase does)", "scheduling points as in C03"},
		Quick:       100 * time.Second, Thorough: 15 * time.Minute,
		Units: c02Units,
	})
}

func c02Bound(thorough bool, bound, calls int, exc string) int {
	if thorough && calls == 2 && exc == "" {
		return 3
	}
	return bound
}
