package checks

import (
	"bytes"
	"fmt"
	"strings"
	"time"

	gsnappy "github.com/golang/snappy"
	"github.com/tsuna/gohbase/compression"
	"github.com/tsuna/gohbase/region"

	"verif/explore"
	"verif/sim"
)

// C15: cellblock compression round-trips and follows Hadoop block framing.

const c15Chunk = 256*1024*5/6 - 32 // 218421, restated here on purpose

func c15Content(class, n int) []byte {
	b := make([]byte, n)
	switch class {
	case 0: // zeros (maximally compressible: long copies)
	case 1: // counter
		for i := range b {
			b[i] = byte(i)
		}
	case 2: // LCG bytes (incompressible)
		x := uint32(12345)
		for i := range b {
			x = x*1664525 + 1013904223
			b[i] = byte(x >> 24)
		}
	}
	return b
}

// c15IsoLimit: address-space limit of the sub-process that reads streams declaring huge
// lengths. It must leave room for the Go runtime and the worker itself (calibrated below).
const c15IsoLimit = 3 << 30

func c15Direct(c *Ctx) {
	r := c.R
	if c.Filter == "" {
		// calibration: a harmless unit must survive the limit, or the limit says nothing
		if res := RunIsolated("C15", "rt|size=3|class=1|one-buffer", c15IsoLimit); res != "ok" {
			// this environment cannot run the worker under the limit: the allocation cases are
			// skipped (and reported as not covered) rather than misjudged
			isoDisabled = true
		}
	}
	if isoDisabled {
		r.Stats.Extra["isolation_unavailable"] = 1
	}
	codec := compression.New("snappy")
	idx := 0
	own := func() bool { idx++; return r.Owns(idx) }
	fail := func(unit, class, msg string) {
		r.Direct(unit, true, "", &explore.Finding{Class: class, Msg: msg}, func() any { return unit })
	}
	var n, nt int64
	outc := map[string]int64{}
	if codec.ChunkLen() != c15Chunk {
		fail("chunklen", "chunk-length-differs-from-hadoop-snappy", fmt.Sprintf("%d != %d", codec.ChunkLen(), c15Chunk))
	}
	// (a) client writer -> independent reader and client reader
	var sizes []int
	for i := 0; i <= 64; i++ {
		sizes = append(sizes, i)
	}
	sizes = append(sizes, c15Chunk-1, c15Chunk, c15Chunk+1, 2*c15Chunk-1, 2*c15Chunk, 2*c15Chunk+1, 3*c15Chunk+5)
	// streams of 32 MiB and 64 MiB and a little: 64 x their length (the decompressor's cap on
	// what it reserves for a block) passes 2^31 and 2^32 - in the GOARCH=386 pass beyond int
	sizes = append(sizes, 1<<25+4096, 1<<26+4096)
	roundtrip := func(unit string, bufs [][]byte, payload []byte) {
		if c.Filter != "" && c.Filter != unit {
			return
		}
		n++
		if len(payload) > 0 {
			nt++
		}
		var comp []byte
		if m := catch(func() { comp = region.VCompress(codec, bufs, uint32(len(payload))) }); m != "" {
			fail(unit, "compress-panic", m)
			return
		}
		ind, err := sim.BlockStreamDecode(comp)
		if err != nil {
			fail(unit, "client-output-not-a-conforming-block-stream", err.Error())
			return
		}
		if !bytes.Equal(ind, payload) {
			fail(unit, "independent-reader-gets-different-bytes", fmt.Sprintf("%d vs %d bytes", len(ind), len(payload)))
			return
		}
		// every chunk must respect the codec's chunk size (Hadoop's decompressor buffer)
		var back []byte
		var derr error
		if m := catch(func() { back, derr = region.VDecompress(codec, comp) }); m != "" {
			fail(unit, "decompress-panic", m)
			return
		}
		if derr != nil || !bytes.Equal(back, payload) {
			fail(unit, "client-roundtrip-differs", fmt.Sprintf("err=%v %d vs %d bytes", derr, len(back), len(payload)))
			return
		}
		outc["roundtrip-ok"]++
	}
	for _, sz := range sizes {
		for class := 0; class < 3; class++ {
			p := c15Content(class, sz)
			if !own() {
				continue
			}
			if r.TimeUp() {
				return
			}
			roundtrip(fmt.Sprintf("rt|size=%d|class=%d|one-buffer", sz, class), [][]byte{p}, p)
			if sz <= 64 {
				for cut := 0; cut <= sz; cut++ { // two buffers split at every position
					roundtrip(fmt.Sprintf("rt|size=%d|class=%d|cut=%d", sz, class, cut), [][]byte{p[:cut], p[cut:]}, p)
				}
				if sz >= 2 && sz <= 16 {
					for c1 := 0; c1 <= sz; c1++ {
						for c2 := c1; c2 <= sz; c2++ {
							roundtrip(fmt.Sprintf("rt|size=%d|class=%d|cuts=%d,%d", sz, class, c1, c2), [][]byte{p[:c1], p[c1:c2], p[c2:]}, p)
						}
					}
				}
			} else {
				for _, cut := range []int{1, c15Chunk - 1, c15Chunk, c15Chunk + 1, sz - 1} {
					if cut > 0 && cut < sz {
						roundtrip(fmt.Sprintf("rt|size=%d|class=%d|cut=%d", sz, class, cut), [][]byte{p[:cut], p[cut:]}, p)
					}
				}
			}
		}
	}
	// (a2) every size up to a bound x the state of the client's buffer pool. The compressor
	// builds its output in a pooled buffer that it grows as it goes; whether a chunk's
	// output lands inside the spare capacity or moves the buffer depends on the payload
	// size, on how far the codec expands it (incompressible data grows by a few bytes per
	// chunk) and on what the pool hands out. Each size runs in its own controlled
	// execution (deterministic LIFO pool, emptied at the start): cold pool, then again
	// with the buffers the first round freed, then after a tiny request left only a
	// small buffer behind.
	dense := 9000
	if c.Thorough {
		dense = 70000
	}
	for sz := 65; sz <= dense && c.Filter == ""; sz++ {
		if !own() {
			continue
		}
		if r.TimeUp() {
			return
		}
		for class := 1; class < 3; class++ {
			p := c15Content(class, sz)
			tiny := []byte{1, 2, 3}
			explore.RunOnce(&explore.Unit{Body: func() {
				roundtrip(fmt.Sprintf("rt|size=%d|class=%d|pool=cold", sz, class), [][]byte{p}, p)
				roundtrip(fmt.Sprintf("rt|size=%d|class=%d|pool=warm", sz, class), [][]byte{p}, p)
			}}, nil)
			explore.RunOnce(&explore.Unit{Body: func() {
				region.VCompress(codec, [][]byte{tiny}, 3)
				roundtrip(fmt.Sprintf("rt|size=%d|class=%d|pool=after-tiny", sz, class), [][]byte{p}, p)
				roundtrip(fmt.Sprintf("rt|size=%d|class=%d|pool=after-tiny-2", sz, class), [][]byte{p[:sz/2], p[sz/2:]}, p)
			}}, nil)
		}
	}
	// (b) conforming server streams: every composition into 1..3 blocks x 1..3 chunks
	encoders := map[string]func([]byte) []byte{
		"literal": sim.SnappyEncodeLiteral,
		"lib":     func(b []byte) []byte { return gsnappy.Encode(nil, b) },
	}
	compose := func(p []byte, cuts []int) [][]byte {
		var parts [][]byte
		prev := 0
		for _, c := range cuts {
			parts = append(parts, p[prev:c])
			prev = c
		}
		return append(parts, p[prev:])
	}
	checkServer := func(unit string, stream, payload []byte) {
		if c.Filter != "" && c.Filter != unit {
			return
		}
		n++
		nt++
		var back []byte
		var derr error
		if m := catch(func() { back, derr = region.VDecompress(codec, stream) }); m != "" {
			fail(unit, "decompress-panic", m)
			return
		}
		if derr != nil {
			fail(unit, "conforming-stream-rejected", derr.Error())
			return
		}
		if !bytes.Equal(back, payload) {
			fail(unit, "conforming-stream-decoded-wrongly", fmt.Sprintf("%d vs %d bytes", len(back), len(payload)))
			return
		}
		outc["server-stream-ok"]++
	}
	srvSizes := []int{0, 1, 2, 3, 5, 9, 17}
	if c.Thorough {
		srvSizes = append(srvSizes, 33, c15Chunk+1)
	}
	for _, sz := range srvSizes {
		for class := 0; class < 3; class++ {
			p := c15Content(class, sz)
			for en, enc := range encoders {
				// block cuts b1<=b2, chunk cuts inside each block: enumerate for small sizes
				lim := sz
				step := 1
				if sz > 40 {
					step = sz / 3
				}
				for b1 := 0; b1 <= lim; b1 += step {
					for b2 := b1; b2 <= lim; b2 += step {
						if !own() {
							continue
						}
						blocksP := compose(p, []int{b1, b2})
						// each block as 1, 2 or 3 chunks (cut in the middle / thirds)
						for nch := 1; nch <= 3; nch++ {
							var blocks [][][]byte
							for _, bp := range blocksP {
								var cuts []int
								for k := 1; k < nch; k++ {
									cuts = append(cuts, len(bp)*k/nch)
								}
								chunks := compose(bp, cuts)
								var nonEmpty [][]byte
								for _, ch := range chunks {
									if len(ch) > 0 {
										nonEmpty = append(nonEmpty, ch)
									}
								}
								blocks = append(blocks, nonEmpty)
							}
							stream := sim.BlockStreamEncode(blocks, enc)
							checkServer(fmt.Sprintf("srv|size=%d|class=%d|enc=%s|blocks=%d,%d|chunks=%d", sz, class, en, b1, b2, nch), stream, p)
						}
					}
				}
			}
		}
	}
	// (b2) the chunk length is the *writer's* choice: Hadoop's BlockCompressorStream cuts at
	// its buffer size minus the codec's overhead - 218422 bytes with the default 256 KiB
	// buffer, one more than the client's own 218421, and more on a server configured with a
	// larger buffer. One block whose only chunk (or first of two chunks) carries that much.
	for _, csz := range []int{c15Chunk, c15Chunk + 1, c15Chunk + 2, 256 << 10, 2 * c15Chunk, 1 << 20} {
		for class := 0; class < 3; class++ {
			for en, enc := range encoders {
				if !own() {
					continue
				}
				p := c15Content(class, csz+7)
				checkServer(fmt.Sprintf("srv|chunk=%d|class=%d|enc=%s|one-chunk", csz, class, en), sim.BlockStreamEncode([][][]byte{{p[:csz]}}, enc), p[:csz])
				checkServer(fmt.Sprintf("srv|chunk=%d|class=%d|enc=%s|then-small", csz, class, en), sim.BlockStreamEncode([][][]byte{{p[:csz], p[csz:]}}, enc), p)
			}
		}
	}
	// (c) every truncation and every single-byte corruption of small conforming streams
	for _, sz := range []int{1, 5, 12} {
		for class := 1; class < 3; class++ {
			p := c15Content(class, sz)
			for en, enc := range encoders {
				blocks := [][][]byte{{p[:sz/2+1]}, {p[sz/2+1:]}}
				if len(p[sz/2+1:]) == 0 {
					blocks = blocks[:1]
				}
				stream := sim.BlockStreamEncode(blocks, enc)
				for cut := 0; cut < len(stream); cut++ {
					if !own() {
						continue
					}
					c15Corrupt(r, codec, fmt.Sprintf("trunc|size=%d|class=%d|enc=%s|cut=%d", sz, class, en, cut), stream[:cut], &n, &nt, outc, c.Filter)
				}
				for pos := 0; pos < len(stream); pos++ {
					if !own() {
						continue
					}
					vals := []int{0x00, 0x01, 0x7f, 0x80, 0xff, int(stream[pos]) ^ 1, int(stream[pos]) ^ 0x80, int(stream[pos]) + 1}
					if c.Thorough {
						vals = vals[:0]
						for v := 0; v < 256; v++ {
							vals = append(vals, v)
						}
					}
					for _, v := range vals {
						if byte(v) == stream[pos] {
							continue
						}
						m := append([]byte(nil), stream...)
						m[pos] = byte(v)
						c15Corrupt(r, codec, fmt.Sprintf("flip|size=%d|class=%d|enc=%s|pos=%d|val=%d", sz, class, en, pos, v&0xff), m, &n, &nt, outc, c.Filter)
					}
				}
			}
		}
	}
	st := &r.Stats
	st.Executions += n
	st.NonTrivial += nt
	for k, v := range outc {
		st.Outcomes[k] += v
	}
	if r.Shard == 0 {
		st.Samples = append(st.Samples, map[string]any{"roundtrip_sizes": sizes[60:], "content_classes": []string{"zeros", "counter", "lcg"}},
			"srv|size=9|class=1|enc=lib|blocks=3,5|chunks=2", "flip|size=5|class=1|enc=literal|pos=3|val=255")
	}
}

// c15Corrupt feeds a damaged stream to the client's reader: it must not panic,
// and if it returns data, that data must be what an independent reader gets
// from the same bytes (raw snappy has no checksum, so an undetectable flip of
// a literal byte is not an error for any conforming reader) and its length
// must equal the sum of the declared block lengths.
func c15Corrupt(r *explore.Runner, codec compression.Codec, unit string, stream []byte, n, nt *int64, outc map[string]int64, filter string) {
	if filter != "" && filter != unit {
		return
	}
	*n++
	*nt++
	if filter == "" && declaresHuge(stream) && isoDisabled {
		outc["huge-declared-length-not-judged"]++
		return
	}
	if filter == "" && declaresHuge(stream) {
		// a declared length far beyond the bytes present: run the client's reader in a
		// sub-process with a 1 GiB address space so that a length-driven allocation
		// cannot take the sandbox down, and judge the outcome
		switch res := RunIsolated("C15", unit, c15IsoLimit); {
		case res == "ok":
			outc["huge-declared-length-handled"]++
		case strings.HasPrefix(res, "finding"):
			r.Direct(unit, true, "", &explore.Finding{Class: "corrupt-stream-finding-in-isolation", Msg: res}, func() any { return unit })
		default:
			r.Direct(unit, true, "", &explore.Finding{Class: "declared-length-drives-fatal-allocation",
				Msg: fmt.Sprintf("a %d-byte stream declaring a huge uncompressed length kills a process limited to 3 GiB of address space: %s", len(stream), res)}, func() any { return unit })
		}
		return
	}
	var back []byte
	var derr error
	if m := catch(func() { back, derr = region.VDecompress(codec, stream) }); m != "" {
		r.Direct(unit, true, "", &explore.Finding{Class: "decompress-panic-on-corrupt-stream", Msg: m}, func() any { return unit })
		return
	}
	if derr != nil {
		outc["corrupt-rejected"]++
		return
	}
	ind, ierr := sim.BlockStreamDecode(stream)
	if ierr != nil {
		// the framing (declared lengths) is inconsistent, yet the client produced data
		if fr := framingError(stream); fr != "" {
			r.Direct(unit, true, "", &explore.Finding{Class: "corrupt-framing-accepted", Msg: fmt.Sprintf("client returned %d bytes; %s", len(back), fr)}, func() any { return unit })
			return
		}
		outc["corrupt-accepted-chunk-level-leniency"]++
		return
	}
	if !bytes.Equal(ind, back) {
		r.Direct(unit, true, "", &explore.Finding{Class: "corrupt-stream-yields-wrong-data", Msg: fmt.Sprintf("client %q vs independent reader %q", back, ind)}, func() any { return unit })
		return
	}
	outc["corrupt-undetectable-same-as-independent"]++
}

// declaresHuge reports whether some length field of the stream promises more
// than 64 MiB although the stream itself is tiny.
func declaresHuge(b []byte) bool {
	for len(b) >= 4 {
		bl := int64(be32u(b))
		if bl > 64<<20 {
			return true
		}
		b = b[4:]
		got := int64(0)
		for got < bl {
			if len(b) < 4 {
				return false
			}
			cl := int64(be32u(b))
			b = b[4:]
			if cl > int64(len(b)) {
				return false
			}
			dl, err := gsnappy.DecodedLen(b[:cl])
			if err != nil {
				return false
			}
			if dl > 64<<20 {
				return true
			}
			got += int64(dl)
			b = b[cl:]
		}
	}
	return false
}

// framingError checks only the Hadoop framing: block lengths vs the snappy
// preambles of the chunks and the chunk length fields.
func framingError(b []byte) string {
	for len(b) > 0 {
		if len(b) < 4 {
			return "truncated block length"
		}
		bl := int64(be32u(b))
		b = b[4:]
		got := int64(0)
		for got < bl {
			if len(b) < 4 {
				return "truncated chunk length"
			}
			cl := int64(be32u(b))
			b = b[4:]
			if cl > int64(len(b)) {
				return "chunk longer than the stream"
			}
			dl, err := gsnappy.DecodedLen(b[:cl])
			if err != nil {
				return "" // chunk-level problem, not framing
			}
			got += int64(dl)
			b = b[cl:]
		}
		if got != bl {
			return fmt.Sprintf("block declares %d bytes but its chunks declare %d", bl, got)
		}
	}
	return ""
}

func be32u(b []byte) uint32 {
	return uint32(b[0])<<24 | uint32(b[1])<<16 | uint32(b[2])<<8 | uint32(b[3])
}

func init() {
	register(&Prop{
		ID: "C15", Level: "exploration",
		Technique: "exhaustive small-size enumeration plus chunk-boundary sizes, every buffer split, every block/chunk composition, every truncation and byte flip of small streams, against an independent Hadoop block-stream reader and an independent snappy decoder",
		Rule: "(a) payload sizes 0..64 and {chunk-1, chunk, chunk+1, 2chunk-1, 2chunk, 2chunk+1, 3chunk+5} x 3 content classes, as one buffer, two buffers cut at every position (small) or at chunk edges (large), three buffers for sizes <=16: client compress -> independent reader = input = client decompress; (b) conforming server streams from an independent writer (literal-only snappy and library snappy): every composition into <=3 blocks x 1..3 chunks; chunks of 218421, 218422 (Hadoop's default cut), 218423, 256 KiB, two client chunks and 1 MiB; (c) every truncation and 8 (thorough 255) substitute values at every byte of small streams: no panic, and any data returned equals what the independent reader returns. Non-trivial = non-empty payload / any damaged stream. (a2) every size 65..9000 (thorough 70000) x {compressible, incompressible} x state of the client's buffer pool {cold, warm from the previous round, holding only a tiny buffer}, each in its own controlled execution with a deterministic pool.",
		Assumptions: []string{"raw snappy carries no checksum: a flipped literal byte is undetectable by any conforming reader, so the oracle for corruption is differential", "chunk = 218421 bytes (Hadoop SnappyCodec buffer)"},
		Quick:       90 * time.Second, Thorough: 10 * time.Minute,
		Direct: c15Direct, Arch32: true,
		// compression happens in the sender's goroutine: the same free-running body as C05's
		Race: func() []RaceBody { return c05Race()[1:] },
	})
}
