package checks

import (
	"bytes"
	"fmt"
	"runtime"
	"runtime/debug"
	"time"
)

// Alphabets used by the small-scope enumerations: bytes just below / at / above
// the comma, the extremes, and an ordinary byte.
var sigma5 = []byte{0x00, '+', ',', '-', 0xff}
var sigma6 = []byte{0x00, '+', ',', '-', 'a', 0xff}

// stringsUpTo returns all byte strings over alpha of length <= n, shortest first.
func stringsUpTo(alpha []byte, n int) [][]byte {
	out := [][]byte{{}}
	prev := [][]byte{{}}
	for l := 1; l <= n; l++ {
		var cur [][]byte
		for _, p := range prev {
			for _, c := range alpha {
				s := append(append([]byte{}, p...), c)
				cur = append(cur, s)
			}
		}
		out = append(out, cur...)
		prev = cur
	}
	return out
}

func sign(x int) int {
	if x < 0 {
		return -1
	}
	if x > 0 {
		return 1
	}
	return 0
}

// nameTuple is the component-wise reading of a region name table,start,id.
type nameTuple struct{ table, start, id []byte }

func (n nameTuple) name() []byte {
	b := append([]byte{}, n.table...)
	b = append(b, ',')
	b = append(b, n.start...)
	b = append(b, ',')
	return append(b, n.id...)
}

// cmpTuple is the oracle order: (table, start key, id) compared as byte strings.
func cmpTuple(a, b nameTuple) (int, string) {
	if c := bytes.Compare(a.table, b.table); c != 0 {
		return c, "table"
	}
	if c := bytes.Compare(a.start, b.start); c != 0 {
		return c, "start"
	}
	return bytes.Compare(a.id, b.id), "id"
}

// catch runs f and converts a panic into an error string with the stack.
func catch(f func()) (msg string) {
	defer func() {
		if r := recover(); r != nil {
			msg = fmt.Sprintf("panic: %v\n%s", r, debug.Stack())
		}
	}()
	f()
	return ""
}

func q(b []byte) string { return fmt.Sprintf("%q", b) }

var stubRegion = regionFor("t", "", "", 1)

// allStacks returns the stacks of all goroutines (diagnosis of a stalled free-running body).
// raceWait is how long a free-running body waits for one answer before it calls the
// request stranded. The bodies run on the real clock next to whatever else the machine is
// doing: a request that is merely slow must not be taken for one that never completes
// (which stays lost for any wait), so the wait is long; the pass's watchdog is longer.
const raceWait = 100 * time.Second

func allStacks() string {
	buf := make([]byte, 1<<20)
	return string(buf[:runtime.Stack(buf, true)])
}
