package checks

import (
	"bytes"
	"context"
	"fmt"
	"math"
	"net"
	"sort"
	"strings"
	"sync"
	"time"

	"github.com/tsuna/gohbase/compression"
	"github.com/tsuna/gohbase/filter"
	"github.com/tsuna/gohbase/hrpc"
	"github.com/tsuna/gohbase/pb"
	"github.com/tsuna/gohbase/region"

	"verif/explore"
	"verif/sim"
	"verif/vrt"
)

// C05: bytes written to the server encode exactly the requested operation.

// op is the normalized meaning of one decoded request (or of one action of a multi).
type op struct {
	Method     string
	Region     string
	Row        string
	Kind       string // get, PUT, DELETE, APPEND, INCREMENT, scan
	Cells      []cellT
	Columns    string // family -> sorted qualifiers
	MaxVer     uint32
	TRFrom     uint64
	TRTo       uint64
	Exists     bool
	CacheBlk   bool
	Consist    string
	Filter     string
	StoreLimit uint32
	StoreOff   uint32
	Durability string
	TTL        string
	Cond       string
	// scan
	Start, Stop string
	Reversed    bool
	NRows       uint32
	MaxSize     uint64
	Close       bool
	ScannerID   string
	Renew       bool
	Attrs       string
	Priority    uint32
}

func colsOf(cs []*pb.Column) string {
	m := map[string][]string{}
	for _, c := range cs {
		var qs []string
		for _, q := range c.Qualifier {
			qs = append(qs, string(q))
		}
		sort.Strings(qs)
		m[string(c.Family)] = qs
	}
	var fs []string
	for f := range m {
		fs = append(fs, f)
	}
	sort.Strings(fs)
	var sb strings.Builder
	for _, f := range fs {
		fmt.Fprintf(&sb, "%s:%v;", f, m[f])
	}
	return sb.String()
}

func trOf(tr *pb.TimeRange) (uint64, uint64) {
	from, to := uint64(0), uint64(math.MaxInt64)
	if tr != nil {
		if tr.From != nil {
			from = *tr.From
		}
		if tr.To != nil {
			to = *tr.To
		}
	}
	return from, to
}

func filterOf(f *pb.Filter) string {
	if f == nil {
		return ""
	}
	return f.GetName() + "/" + fmt.Sprintf("%x", f.GetSerializedFilter())
}

func getOp(g *pb.Get) op {
	o := op{Kind: "get", Row: string(g.Row), Columns: colsOf(g.Column), MaxVer: 1, CacheBlk: true, Consist: "STRONG", Filter: filterOf(g.Filter)}
	if g.MaxVersions != nil {
		o.MaxVer = *g.MaxVersions
	}
	o.TRFrom, o.TRTo = trOf(g.TimeRange)
	o.Exists = g.GetExistenceOnly()
	if g.CacheBlocks != nil {
		o.CacheBlk = *g.CacheBlocks
	}
	if g.Consistency != nil {
		o.Consist = g.Consistency.String()
	}
	o.StoreLimit, o.StoreOff = g.GetStoreLimit(), g.GetStoreOffset()
	return o
}

// mutOp: cells come from the protobuf column values, or, when the mutation only
// carries a cell count, from the next cells of the trailing cellblock.
func mutOp(m *pb.MutationProto, cells *[]sim.KV) (op, string) {
	o := op{Kind: m.GetMutateType().String(), Row: string(m.Row), Durability: m.GetDurability().String()}
	for _, a := range m.Attribute {
		if a.GetName() == "_ttl" {
			o.TTL = fmt.Sprintf("%x", a.Value)
		} else {
			o.Attrs += a.GetName() + ";"
		}
	}
	if m.AssociatedCellCount != nil {
		n := int(m.GetAssociatedCellCount())
		if n > len(*cells) {
			return o, fmt.Sprintf("mutation declares %d cells but only %d are left in the cellblock", n, len(*cells))
		}
		for _, kv := range (*cells)[:n] {
			if !bytes.Equal(kv.Row, m.Row) {
				return o, fmt.Sprintf("cell row %q differs from the mutation row %q", kv.Row, m.Row)
			}
			o.Cells = append(o.Cells, cellT{string(kv.Row), string(kv.Family), string(kv.Qualifier), string(kv.Value), kv.TS, kv.Type})
		}
		*cells = (*cells)[n:]
		sortCells(o.Cells)
		if len(m.ColumnValue) != 0 {
			return o, "mutation carries both column values and a cell count"
		}
	} else {
		o.Cells = cellsOfProto(m)
	}
	return o, ""
}

func scanOp(r *pb.ScanRequest) op {
	o := op{Kind: "scan", NRows: r.GetNumberOfRows(), Close: r.GetCloseScanner(), Renew: r.GetRenew()}
	if r.ScannerId != nil {
		o.ScannerID = fmt.Sprint(*r.ScannerId)
	}
	if s := r.Scan; s != nil {
		o.Start, o.Stop, o.Reversed = string(s.StartRow), string(s.StopRow), s.GetReversed()
		o.Columns = colsOf(s.Column)
		o.MaxVer = 1
		if s.MaxVersions != nil {
			o.MaxVer = *s.MaxVersions
		}
		o.TRFrom, o.TRTo = trOf(s.TimeRange)
		o.CacheBlk = true
		if s.CacheBlocks != nil {
			o.CacheBlk = *s.CacheBlocks
		}
		o.Consist = "STRONG"
		if s.Consistency != nil {
			o.Consist = s.Consistency.String()
		}
		o.Filter = filterOf(s.Filter)
		o.MaxSize = s.GetMaxResultSize()
		o.StoreLimit, o.StoreOff = s.GetStoreLimit(), s.GetStoreOffset()
		for _, a := range s.Attribute {
			o.Attrs += a.GetName() + "=" + string(a.Value) + ";"
		}
	}
	return o
}

// decodeFrame turns one decoded request frame into normalized operations.
func decodeFrame(f *sim.Frame) ([]op, string) {
	cells := append([]sim.KV(nil), f.Cells...)
	var ops []op
	prio := f.Header.GetPriority()
	switch r := f.Req.(type) {
	case *pb.GetRequest:
		o := getOp(r.Get)
		o.Method, o.Region, o.Priority = "Get", string(r.GetRegion().GetValue()), prio
		ops = append(ops, o)
	case *pb.MutateRequest:
		o, msg := mutOp(r.Mutation, &cells)
		if msg != "" {
			return nil, msg
		}
		o.Method, o.Region, o.Priority = "Mutate", string(r.GetRegion().GetValue()), prio
		if c := r.Condition; c != nil {
			o.Cond = fmt.Sprintf("%s/%s/%s/%s/%s", c.Row, c.Family, c.Qualifier, c.GetCompareType(), c.GetComparator().GetName())
		}
		ops = append(ops, o)
	case *pb.ScanRequest:
		o := scanOp(r)
		o.Method, o.Region, o.Priority = "Scan", string(r.GetRegion().GetValue()), prio
		ops = append(ops, o)
	case *pb.MultiRequest:
		seen := map[uint32]bool{}
		for _, ra := range r.RegionAction {
			for _, a := range ra.Action {
				if a.Index == nil || seen[a.GetIndex()] {
					return nil, fmt.Sprintf("multi action index missing or repeated: %v", a.Index)
				}
				seen[a.GetIndex()] = true
				var o op
				if a.Get != nil {
					o = getOp(a.Get)
				} else if a.Mutation != nil {
					var msg string
					o, msg = mutOp(a.Mutation, &cells)
					if msg != "" {
						return nil, msg
					}
				} else {
					return nil, "multi action without get or mutation"
				}
				o.Method, o.Region, o.Priority = "Multi", string(ra.GetRegion().GetValue()), prio
				o.Attrs += fmt.Sprintf("index=%d;", a.GetIndex())
				ops = append(ops, o)
			}
		}
	}
	if len(cells) != 0 {
		return nil, fmt.Sprintf("%d cells in the cellblock are not accounted for by any associated_cell_count", len(cells))
	}
	return ops, ""
}

// ---- call shapes: the call plus the operation the caller means

type shape struct {
	name string
	mk   func(ctx context.Context) (hrpc.Call, op)
}

func tsOf(t *uint64) uint64 {
	if t == nil {
		return math.MaxInt64
	}
	return *t
}

func c05Shapes(thorough bool) []shape {
	var out []shape
	row := "row\x00,\xff"
	regName := "t,,1"
	// mutations
	vmaps := []struct {
		name string
		v    map[string]map[string][]byte
	}{
		{"nil", nil}, {"fam-nil", map[string]map[string][]byte{"f": nil}}, {"fam-empty", map[string]map[string][]byte{"f": {}}},
		{"one", map[string]map[string][]byte{"f": {"q": []byte("v1")}}}, {"one-nilvalue", map[string]map[string][]byte{"f": {"q": nil}}},
		{"two-fams", map[string]map[string][]byte{"f": {"q1": []byte("v1"), "q2": nil}, "g": {"": []byte{}}}},
		{"fam-nil+qual", map[string]map[string][]byte{"a": nil, "b": {"q": []byte("v")}}},
	}
	tss := []*uint64{nil, u64(0), u64(1), u64(math.MaxInt64), u64(math.MaxUint64 - 1)}
	durs := []hrpc.DurabilityType{hrpc.UseDefault, hrpc.SkipWal, hrpc.AsyncWal, hrpc.SyncWal, hrpc.FsyncWal}
	durNames := []string{"USE_DEFAULT", "SKIP_WAL", "ASYNC_WAL", "SYNC_WAL", "FSYNC_WAL"}
	for _, kind := range mutKinds {
		for _, vm := range vmaps {
			for ti, ts := range tss {
				for di, dur := range durs {
					if !thorough && ti > 0 && di > 0 && (ti+di)%3 != 0 {
						continue // one factor at a time, plus a third of the pairs
					}
					for _, ttl := range []time.Duration{0, 1500 * time.Millisecond} {
						if ttl != 0 && (ti != 0 || di != 0) && !thorough {
							continue
						}
						kind, vm, ts, dur, di, ttl := kind, vm, ts, dur, di, ttl
						if (kind.name == "delete" || kind.name == "delete-one-version") && len(vm.v) == 0 && kind.oneVer {
							continue
						}
						name := fmt.Sprintf("%s|%s|ts=%s|dur=%s|ttl=%v", kind.name, vm.name, tsName(ts), durNames[di], ttl)
						out = append(out, shape{name, func(ctx context.Context) (hrpc.Call, op) {
							opts := []func(hrpc.Call) error{hrpc.Durability(dur)}
							if ts != nil {
								opts = append(opts, hrpc.TimestampUint64(*ts))
							}
							if kind.oneVer {
								opts = append(opts, hrpc.DeleteOneVersion())
							}
							if ttl != 0 {
								opts = append(opts, hrpc.TTL(ttl))
							}
							m, err := kind.mk(ctx, []byte("t"), []byte(row), vm.v, opts...)
							if err != nil {
								return nil, op{}
							}
							want := op{Method: "Mutate", Region: regName, Row: row, Durability: durNames[di], Cells: specCells(kind, []byte(row), vm.v, ts)}
							switch kind.name {
							case "put":
								want.Kind = "PUT"
							case "append":
								want.Kind = "APPEND"
							case "increment":
								want.Kind = "INCREMENT"
							default:
								want.Kind = "DELETE"
							}
							if ttl != 0 {
								want.TTL = fmt.Sprintf("%016x", uint64(ttl/time.Millisecond))
							}
							return m, want
						}})
					}
				}
			}
		}
	}
	// rows and families around the widths of the KeyValue length fields (2 bytes for the
	// row, 1 byte for the family): the request on the wire is the one built, or the call is
	// refused when it is built - never a different, valid cell
	for _, kind := range mutKinds {
		for _, rl := range []int{255, 256, 32767, 32768, 65535, 65536, 65539} {
			for _, fl := range []int{1, 127, 128, 255, 256, 258} {
				if !thorough && rl != 65535 && rl != 65536 && fl != 255 && fl != 256 {
					continue
				}
				kind, rl, fl := kind, rl, fl
				name := fmt.Sprintf("%s|lengths|row=%d|fam=%d", kind.name, rl, fl)
				out = append(out, shape{name, func(ctx context.Context) (hrpc.Call, op) {
					// contents chosen so that a truncated length still frames a well-formed cell
					lrow := append([]byte("abc\x02cf"), bytes.Repeat([]byte("r"), rl)...)[:rl]
					fam := ("cf" + strings.Repeat("x", fl))[:fl]
					v := map[string]map[string][]byte{fam: {"q": []byte("v1")}}
					var opts []func(hrpc.Call) error
					if kind.oneVer {
						opts = append(opts, hrpc.DeleteOneVersion())
					}
					m, err := kind.mk(ctx, []byte("t"), lrow, v, opts...)
					if err != nil {
						return nil, op{}
					}
					want := op{Method: "Mutate", Region: regName, Row: string(lrow), Durability: "USE_DEFAULT", Cells: specCells(kind, lrow, v, nil)}
					switch kind.name {
					case "put":
						want.Kind = "PUT"
					case "append":
						want.Kind = "APPEND"
					case "increment":
						want.Kind = "INCREMENT"
					default:
						want.Kind = "DELETE"
					}
					return m, want
				}})
			}
		}
	}
	// check-and-put
	out = append(out, shape{"check-and-put", func(ctx context.Context) (hrpc.Call, op) {
		p, _ := hrpc.NewPut(ctx, []byte("t"), []byte(row), map[string]map[string][]byte{"f": {"q": []byte("new")}})
		cp, _ := hrpc.NewCheckAndPut(p, "f", "q", []byte("old"))
		want := op{Method: "Mutate", Region: regName, Row: row, Kind: "PUT", Durability: "USE_DEFAULT",
			Cells: []cellT{{row, "f", "q", "new", math.MaxInt64, 4}}, Cond: row + "/f/q/EQUAL/org.apache.hadoop.hbase.filter.BinaryComparator"}
		return cp, want
	}})
	// gets
	type gopt struct {
		name string
		o    []func(hrpc.Call) error
		mod  func(*op)
		post func(*hrpc.Get)
	}
	flt := filter.NewKeyOnlyFilter(true)
	gopts := []gopt{
		{"plain", nil, func(*op) {}, nil},
		{"families", []func(hrpc.Call) error{hrpc.Families(map[string][]string{"f": {"q2", "q1"}, "g": nil})}, func(o *op) { o.Columns = "f:[q1 q2];g:[];" }, nil},
		{"versions", []func(hrpc.Call) error{hrpc.MaxVersions(3)}, func(o *op) { o.MaxVer = 3 }, nil},
		{"timerange", []func(hrpc.Call) error{hrpc.TimeRangeUint64(5, 10)}, func(o *op) { o.TRFrom, o.TRTo = 5, 10 }, nil},
		{"exists", nil, func(o *op) { o.Exists = true }, func(g *hrpc.Get) { g.ExistsOnly() }},
		{"nocache", []func(hrpc.Call) error{hrpc.CacheBlocks(false)}, func(o *op) { o.CacheBlk = false }, nil},
		{"timeline", []func(hrpc.Call) error{hrpc.Consistency(hrpc.TimelineConsistency)}, func(o *op) { o.Consist = "TIMELINE" }, nil},
		{"filter", []func(hrpc.Call) error{hrpc.Filters(flt)}, func(o *op) {
			pbf, _ := flt.ConstructPBFilter()
			o.Filter = filterOf(pbf)
		}, nil},
		{"storelimit", []func(hrpc.Call) error{hrpc.MaxResultsPerColumnFamily(7), hrpc.ResultOffset(2)}, func(o *op) { o.StoreLimit, o.StoreOff = 7, 2 }, nil},
		{"priority", []func(hrpc.Call) error{hrpc.Priority(5)}, func(o *op) { o.Priority = 5 }, nil},
	}
	for i, a := range gopts {
		for j, b := range gopts {
			if j < i || (j > i && i == 0) {
				continue
			}
			if j > i && !thorough && (i+j)%3 != 0 {
				continue
			}
			a, b, single := a, b, i == j
			name := "get|" + a.name
			if !single {
				name += "+" + b.name
			}
			out = append(out, shape{name, func(ctx context.Context) (hrpc.Call, op) {
				opts := append([]func(hrpc.Call) error{}, a.o...)
				if !single {
					opts = append(opts, b.o...)
				}
				g, err := hrpc.NewGet(ctx, []byte("t"), []byte(row), opts...)
				if err != nil {
					return nil, op{}
				}
				want := op{Method: "Get", Region: regName, Kind: "get", Row: row, MaxVer: 1, TRTo: math.MaxInt64, CacheBlk: true, Consist: "STRONG"}
				a.mod(&want)
				if a.post != nil {
					a.post(g)
				}
				if !single {
					b.mod(&want)
					if b.post != nil {
						b.post(g)
					}
				}
				return g, want
			}})
		}
	}
	// scans
	type sopt struct {
		name string
		o    []func(hrpc.Call) error
		mod  func(*op)
	}
	sopts := []sopt{
		{"plain", nil, func(*op) {}},
		{"reversed", []func(hrpc.Call) error{hrpc.Reversed()}, func(o *op) { o.Reversed = true }},
		{"rows", []func(hrpc.Call) error{hrpc.NumberOfRows(17)}, func(o *op) { o.NRows = 17 }},
		{"maxsize", []func(hrpc.Call) error{hrpc.MaxResultSize(12345)}, func(o *op) { o.MaxSize = 12345 }},
		{"close", []func(hrpc.Call) error{hrpc.CloseScanner()}, func(o *op) { o.Close = true }},
		{"families", []func(hrpc.Call) error{hrpc.Families(map[string][]string{"f": nil})}, func(o *op) { o.Columns = "f:[];" }},
		{"attr", []func(hrpc.Call) error{hrpc.Attribute("k", []byte("v"))}, func(o *op) { o.Attrs = "k=v;" }},
		{"versions+range", []func(hrpc.Call) error{hrpc.MaxVersions(2), hrpc.TimeRangeUint64(1, 9)}, func(o *op) { o.MaxVer = 2; o.TRFrom, o.TRTo = 1, 9 }},
		{"priority", []func(hrpc.Call) error{hrpc.Priority(9)}, func(o *op) { o.Priority = 9 }},
	}
	for _, bounds := range [][2]string{{"", ""}, {"a\x00", "z,"}, {"k", ""}} {
		for _, so := range sopts {
			bounds, so := bounds, so
			out = append(out, shape{fmt.Sprintf("scan|%q-%q|%s", bounds[0], bounds[1], so.name), func(ctx context.Context) (hrpc.Call, op) {
				s, err := hrpc.NewScanRange(ctx, []byte("t"), []byte(bounds[0]), []byte(bounds[1]), so.o...)
				if err != nil {
					return nil, op{}
				}
				want := op{Method: "Scan", Region: regName, Kind: "scan", Start: bounds[0], Stop: bounds[1], MaxVer: 1, TRTo: math.MaxInt64,
					CacheBlk: true, Consist: "STRONG", NRows: hrpc.DefaultNumberOfRows, MaxSize: hrpc.DefaultMaxResultSize}
				so.mod(&want)
				return s, want
			}})
		}
	}
	// continuing / closing / renewing an open scanner
	out = append(out, shape{"scan|continue", func(ctx context.Context) (hrpc.Call, op) {
		s, _ := hrpc.NewScanRange(ctx, []byte("t"), []byte("k"), nil, hrpc.ScannerID(77), hrpc.NumberOfRows(3))
		return s, op{Method: "Scan", Region: regName, Kind: "scan", ScannerID: "77", NRows: 3}
	}}, shape{"scan|close-id", func(ctx context.Context) (hrpc.Call, op) {
		s, _ := hrpc.NewScanRange(ctx, []byte("t"), []byte("k"), nil, hrpc.ScannerID(78), hrpc.CloseScanner(), hrpc.NumberOfRows(0))
		return s, op{Method: "Scan", Region: regName, Kind: "scan", ScannerID: "78", Close: true}
	}}, shape{"scan|renew", func(ctx context.Context) (hrpc.Call, op) {
		s, _ := hrpc.NewScanRange(ctx, []byte("t"), []byte("k"), nil, hrpc.ScannerID(79), hrpc.RenewalScan())
		return s, op{Method: "Scan", Region: regName, Kind: "scan", ScannerID: "79", Renew: true, NRows: hrpc.DefaultNumberOfRows}
	}})
	return out
}

type c05Obs struct {
	srvErrs    []string
	frames     []*sim.Frame
	header     *pb.ConnectionHeader
	ids        []uint32
	preambleOK bool
	results    []error
}

func diffOps(got, want op) string {
	g, w := fmt.Sprintf("%+v", got), fmt.Sprintf("%+v", want)
	if g == w {
		return ""
	}
	return fmt.Sprintf("decoded   %s\nrequested %s", g, w)
}

// c05Send runs one real region client, sends the calls (each from its own thread when concurrent,
// else sequentially; batch != nil hands that group over in one QueueBatch) and records what the server decoded.
func c05Send(codec compression.Codec, qsize int, mk func(r *rig) (direct []hrpc.Call, batch []hrpc.Call), concurrent bool, out *c05Obs) func() {
	return func() {
		*out = c05Obs{}
		r := newRig(rigCfg{QueueSize: qsize, Codec: codec})
		r.srv.Compressed = codec != nil
		r.srv.OnFrame = func(s *sim.Server, f *sim.Frame) {
			resp, cells := answer(f)
			s.Send(sim.EncodeResponseC(f.Header.GetCallId(), resp, nil, cells, codec != nil))
		}
		if err := r.rc.Dial(context.Background()); err != nil {
			panic(err)
		}
		vrt.GoNamed("h:server", r.srv.Run)
		direct, batch := mk(r)
		all := append(append([]hrpc.Call{}, direct...), batch...)
		out.results = make([]error, len(all))
		wait := func(i int, c hrpc.Call) {
			res := vrt.Recv(c.ResultChan())
			out.results[i] = res.Error
		}
		if concurrent {
			fin := make(chan int, len(all)+1)
			n := 0
			for i, c := range direct {
				i, c := i, c
				n++
				vrt.GoNamed(fmt.Sprintf("h:sender%d", i), func() { r.rc.QueueRPC(c); wait(i, c); vrt.Send(fin, i) })
			}
			if len(batch) > 0 {
				n++
				vrt.GoNamed("h:batcher", func() {
					r.rc.QueueBatch(context.Background(), batch)
					for j, c := range batch {
						wait(len(direct)+j, c)
					}
					vrt.Send(fin, -1)
				})
			}
			for i := 0; i < n; i++ {
				vrt.Recv(fin)
			}
		} else {
			for i, c := range direct {
				r.rc.QueueRPC(c)
				wait(i, c)
			}
			if len(batch) > 0 {
				r.rc.QueueBatch(context.Background(), batch)
				for j, c := range batch {
					wait(len(direct)+j, c)
				}
			}
		}
		r.rc.Close()
		vrt.Sleep(time.Minute)
		out.srvErrs = r.srv.Errors
		out.frames = r.srv.Frames
		out.header = r.srv.Header
		out.preambleOK = len(r.conn.All) >= 6 && string(r.conn.All[:6]) == "HBas\x00\x50"
		r.srv.Stop = true
	}
}

func c05Common(res *vrt.Result, out *c05Obs, codec compression.Codec, ctx string) *explore.Finding {
	if f := baseFinding(res); f != nil {
		f.Msg += "\n" + ctx
		return f
	}
	if len(out.srvErrs) > 0 {
		return &explore.Finding{Class: "byte-stream-not-well-formed", Msg: fmt.Sprintf("the independent decoder rejected the stream: %v\n%s", out.srvErrs, ctx)}
	}
	if res.Deadlock {
		return &explore.Finding{Class: "sender-blocked", Msg: fmt.Sprintf("%v\n%s", res.Blocked, ctx)}
	}
	if !out.preambleOK || out.header == nil {
		return &explore.Finding{Class: "preamble-or-connection-header-wrong", Msg: ctx}
	}
	if out.header.GetServiceName() != "ClientService" || out.header.GetCellBlockCodecClass() != "org.apache.hadoop.hbase.codec.KeyValueCodec" ||
		out.header.GetUserInfo().GetEffectiveUser() != "root" {
		return &explore.Finding{Class: "preamble-or-connection-header-wrong", Msg: fmt.Sprintf("%v\n%s", out.header, ctx)}
	}
	if (codec != nil) != (out.header.GetCellBlockCompressorClass() != "") {
		return &explore.Finding{Class: "compressor-class-not-announced-correctly", Msg: fmt.Sprintf("%v\n%s", out.header, ctx)}
	}
	seen := map[uint32]bool{}
	for _, f := range out.frames {
		id := f.Header.GetCallId()
		if f.Header.CallId == nil || seen[id] {
			return &explore.Finding{Class: "call-id-missing-or-reused-on-connection", Msg: fmt.Sprintf("call id %d\n%s", id, ctx)}
		}
		seen[id] = true
		if !f.Header.GetRequestParam() {
			return &explore.Finding{Class: "request-param-flag-missing", Msg: ctx}
		}
	}
	return nil
}

func c05Units(thorough bool) []*explore.Unit {
	var units []*explore.Unit
	snappy := compression.New("snappy")
	// (1) every call shape alone, plain and compressed
	for _, sh := range c05Shapes(thorough) {
		for _, codec := range []compression.Codec{nil, snappy} {
			if codec != nil && !thorough && !strings.HasPrefix(sh.name, "put|") && !strings.HasPrefix(sh.name, "delete|two") && !strings.HasPrefix(sh.name, "get|plain") {
				continue
			}
			sh, codec := sh, codec
			out := &c05Obs{}
			var want op
			var skip bool
			name := "shape|" + sh.name
			if codec != nil {
				name += "|snappy"
			}
			u := &explore.Unit{Name: name, Bound: 0, Opt: vrt.Options{MaxSteps: 20000}}
			u.Body = c05Send(codec, 1, func(r *rig) ([]hrpc.Call, []hrpc.Call) {
				c, w := sh.mk(context.Background())
				want, skip = w, c == nil
				if c == nil {
					return nil, nil
				}
				c.SetRegion(r.reg)
				return []hrpc.Call{c}, nil
			}, false, out)
			u.Check = func(res *vrt.Result) *explore.Finding {
				if skip {
					return nil
				}
				if f := c05Common(res, out, codec, name); f != nil {
					return f
				}
				if len(out.frames) != 1 {
					return &explore.Finding{Class: "wrong-number-of-frames", Msg: fmt.Sprintf("%d frames for one call\n%s", len(out.frames), name)}
				}
				ops, msg := decodeFrame(out.frames[0])
				if msg != "" {
					return &explore.Finding{Class: "frame-not-self-consistent", Msg: msg + "\n" + name}
				}
				if out.frames[0].Header.GetMethodName() != want.Method {
					return &explore.Finding{Class: "wrong-method-name", Msg: out.frames[0].Header.GetMethodName() + "\n" + name}
				}
				if d := diffOps(ops[0], want); d != "" {
					return &explore.Finding{Class: "decoded-operation-differs-from-request: " + strings.SplitN(sh.name, "|", 2)[0], Msg: d + "\n" + name}
				}
				return nil
			}
			u.Sig = func() string { return want.Kind }
			units = append(units, u)
		}
	}
	// (2) groupings into one multi-request: every sequence of 2..4 calls over regions A,B and some over A,B,C
	regs := map[byte]hrpc.RegionInfo{
		'A': region.NewInfo(1, nil, []byte("t"), []byte("t,,1"), nil, []byte("h")),
		'B': region.NewInfo(2, nil, []byte("t"), []byte("t,h,2"), []byte("h"), []byte("p")),
		'C': region.NewInfo(3, nil, []byte("t"), []byte("t,p,3"), []byte("p"), nil),
	}
	keyOf := map[byte]string{'A': "a", 'B': "k", 'C': "x"}
	var patterns []string
	for n := 1; n <= 4; n++ {
		for m := 0; m < 1<<n; m++ {
			s := ""
			for i := 0; i < n; i++ {
				s += string("AB"[(m>>i)&1])
			}
			patterns = append(patterns, s)
		}
	}
	patterns = append(patterns, "ABC", "CBA", "ABCAC", "ACBCA", "ABCABC", "AABBCC", "CABAC")
	// which kind of call stands at position i: the original assignment (put, get, delete of a
	// family by position) and rotations of (put, delete of the whole row - a mutation without
	// any cell -, get, delete of a family), so that every kind follows every other kind inside
	// one region's action list
	variants := []int{-1, 0, 1}
	if thorough {
		variants = []int{-1, 0, 1, 2, 3}
	}
	for _, pat := range patterns {
		for _, codec := range []compression.Codec{nil, snappy} {
			for _, variant := range variants {
				if codec != nil && len(pat) < 4 && !thorough && variant < 0 {
					continue
				}
				if codec != nil && variant >= 0 && len(pat) != 2 && len(pat) != 4 && !thorough {
					continue
				}
				pat, codec, variant := pat, codec, variant
				out := &c05Obs{}
				var wants []op
				name := "multi|" + pat
				if variant >= 0 {
					name += fmt.Sprintf("|kinds-rot%d", variant)
				}
				if codec != nil {
					name += "|snappy"
				}
				u := &explore.Unit{Name: name, Bound: 0, Opt: vrt.Options{MaxSteps: 20000}}
				u.Body = c05Send(codec, len(pat), func(r *rig) ([]hrpc.Call, []hrpc.Call) {
					wants = nil
					var calls []hrpc.Call
					for i, rc := range []byte(pat) {
						key := fmt.Sprintf("%s%d", keyOf[rc], i)
						var c hrpc.Call
						var w op
						sel := i % 3
						if variant >= 0 {
							sel = []int{0, 3, 1, 2}[(i+variant)%4]
						}
						switch sel {
						case 3:
							c, _ = hrpc.NewDelStr(context.Background(), "t", key, nil)
							w = op{Kind: "DELETE", Row: key, Durability: "USE_DEFAULT"}
						case 0:
							c, _ = hrpc.NewPutStr(context.Background(), "t", key, map[string]map[string][]byte{"f": {"q": []byte("v" + key)}})
							w = op{Kind: "PUT", Row: key, Durability: "USE_DEFAULT", Cells: []cellT{{key, "f", "q", "v" + key, math.MaxInt64, 4}}}
						case 1:
							c, _ = hrpc.NewGetStr(context.Background(), "t", key)
							w = op{Kind: "get", Row: key, MaxVer: 1, TRTo: math.MaxInt64, CacheBlk: true, Consist: "STRONG"}
						default:
							c, _ = hrpc.NewDelStr(context.Background(), "t", key, map[string]map[string][]byte{"f": nil})
							w = op{Kind: "DELETE", Row: key, Durability: "USE_DEFAULT", Cells: []cellT{{key, "f", "", "", math.MaxInt64, 14}}}
						}
						c.SetRegion(regs[rc])
						w.Method, w.Region = "Multi", string(regs[rc].Name())
						w.Attrs = fmt.Sprintf("index=%d;", i+1)
						wants = append(wants, w)
						calls = append(calls, c)
					}
					return nil, calls
				}, false, out)
				u.Check = func(res *vrt.Result) *explore.Finding {
					if f := c05Common(res, out, codec, name); f != nil {
						return f
					}
					if len(out.frames) != 1 {
						return &explore.Finding{Class: "wrong-number-of-frames", Msg: fmt.Sprintf("%d frames for one batch of %d\n%s", len(out.frames), len(pat), name)}
					}
					ops, msg := decodeFrame(out.frames[0])
					if msg != "" {
						return &explore.Finding{Class: "frame-not-self-consistent", Msg: msg + "\n" + name}
					}
					if len(ops) != len(wants) {
						return &explore.Finding{Class: "multi-action-count-wrong", Msg: fmt.Sprintf("%d actions for %d calls\n%s", len(ops), len(wants), name)}
					}
					// match by action index; per-region order must follow the batch order
					byIdx := map[string]op{}
					lastPerRegion := map[string]int{}
					for _, o := range ops {
						byIdx[o.Attrs] = o
						var ix int
						fmt.Sscanf(o.Attrs, "index=%d;", &ix)
						if ix < lastPerRegion[o.Region] {
							return &explore.Finding{Class: "multi-actions-of-a-region-out-of-batch-order", Msg: fmt.Sprintf("region %s\n%s", o.Region, name)}
						}
						lastPerRegion[o.Region] = ix
					}
					for _, w := range wants {
						if d := diffOps(byIdx[w.Attrs], w); d != "" {
							return &explore.Finding{Class: "multi-action-differs-from-its-call", Msg: d + "\n" + name}
						}
					}
					return nil
				}
				units = append(units, u)
			}
		}
	}
	// (3) concurrent senders on one connection that is not a TCP socket (a gather write is several Writes)
	type conc struct {
		name   string
		direct []callSpec
		batch  int
		big    bool
	}
	concs := []conc{
		{"2 unbatched puts", []callSpec{{Kind: "put", Key: "k0", SkipBatch: true}, {Kind: "put", Key: "k1", SkipBatch: true}}, 0, false},
		{"put + get unbatched", []callSpec{{Kind: "put", Key: "k0", SkipBatch: true}, {Kind: "get", Key: "k1", SkipBatch: true}}, 0, false},
		{"multi flush + unbatched get", []callSpec{{Kind: "get", Key: "k9", SkipBatch: true}}, 2, false},
		{"multi flush + unbatched put", []callSpec{{Kind: "put", Key: "k9", SkipBatch: true}}, 2, false},
	}
	if thorough {
		concs = append(concs, conc{"3 unbatched puts", []callSpec{{Kind: "put", Key: "k0", SkipBatch: true}, {Kind: "put", Key: "k1", SkipBatch: true}, {Kind: "put", Key: "k2", SkipBatch: true}}, 0, false},
			conc{"multi + 2 unbatched", []callSpec{{Kind: "put", Key: "k8", SkipBatch: true}, {Kind: "get", Key: "k9", SkipBatch: true}}, 2, false})
	}
	for _, cc := range concs {
		for _, codec := range []compression.Codec{nil, snappy} {
			cc, codec := cc, codec
			out := &c05Obs{}
			name := "concurrent|" + cc.name
			if codec != nil {
				name += "|snappy"
			}
			cb := 2
			if thorough && len(cc.direct)+cc.batch <= 2 {
				cb = 3
			}
			u := &explore.Unit{Name: name, Bound: cb, Opt: vrt.Options{MaxSteps: 20000}}
			u.Body = c05Send(codec, 2, func(r *rig) ([]hrpc.Call, []hrpc.Call) {
				var d, b []hrpc.Call
				for _, s := range cc.direct {
					c, _ := r.mkCall(s)
					d = append(d, c)
				}
				for i := 0; i < cc.batch; i++ {
					c, _ := r.mkCall(callSpec{Kind: "put", Key: fmt.Sprintf("b%d", i)})
					b = append(b, c)
				}
				return d, b
			}, true, out)
			u.Check = func(res *vrt.Result) *explore.Finding {
				if f := c05Common(res, out, codec, name); f != nil {
					if f.Class == "byte-stream-not-well-formed" {
						f.Class = "frames-of-concurrent-senders-interleaved"
					}
					return f
				}
				rows := map[string]int{}
				for _, fr := range out.frames {
					ops, msg := decodeFrame(fr)
					if msg != "" {
						return &explore.Finding{Class: "frame-not-self-consistent", Msg: msg + "\n" + name}
					}
					for _, o := range ops {
						rows[o.Row]++
						for _, cl := range o.Cells {
							if cl.val != "v:"+o.Row {
								return &explore.Finding{Class: "cells-of-another-request-in-frame", Msg: fmt.Sprintf("row %q carries value %q\n%s", o.Row, cl.val, name)}
							}
						}
					}
				}
				for _, s := range cc.direct {
					if rows[s.Key] != 1 {
						return &explore.Finding{Class: "request-missing-or-duplicated-on-the-wire", Msg: fmt.Sprintf("%q seen %d times\n%s", s.Key, rows[s.Key], name)}
					}
				}
				for i, e := range out.results {
					if e != nil {
						return &explore.Finding{Class: "concurrent-send-failed", Msg: fmt.Sprintf("call %d: %v\n%s", i, e, name)}
					}
				}
				return nil
			}
			u.Sig = func() string { return fmt.Sprint(len(out.frames)) }
			units = append(units, u)
		}
	}
	// (4) payloads around the compression chunk size, compressed
	for _, sz := range []int{c15Chunk - 200, c15Chunk, c15Chunk + 1, 2*c15Chunk + 7} {
		if !thorough && sz > c15Chunk+1 {
			continue
		}
		sz := sz
		out := &c05Obs{}
		name := fmt.Sprintf("bigvalue|%d|snappy", sz)
		val := c15Content(1, sz)
		u := &explore.Unit{Name: name, Bound: 0, Opt: vrt.Options{MaxSteps: 20000}}
		u.Body = c05Send(snappy, 1, func(r *rig) ([]hrpc.Call, []hrpc.Call) {
			c, _ := hrpc.NewPutStr(context.Background(), "t", "big", map[string]map[string][]byte{"f": {"q": val}}, hrpc.SkipBatch())
			c.SetRegion(r.reg)
			return []hrpc.Call{c}, nil
		}, false, out)
		u.Check = func(res *vrt.Result) *explore.Finding {
			if f := c05Common(res, out, snappy, name); f != nil {
				return f
			}
			if len(out.frames) != 1 || len(out.frames[0].Cells) != 1 || !bytes.Equal(out.frames[0].Cells[0].Value, val) {
				return &explore.Finding{Class: "large-compressed-value-corrupted", Msg: name}
			}
			return nil
		}
		units = append(units, u)
	}
	return units
}

// c05Race: several goroutines sending on one real region client (plain and
// compressed), free-running for the race detector; the server decodes with the
// independent codec and every value must belong to its row.
func c05Race() []RaceBody {
	run := func(codec compression.Codec) func(iter int) error {
		return func(iter int) error {
			conn := &sim.Conn{Name: "rs1:1"}
			dial := func(ctx context.Context, network, addr string) (net.Conn, error) { return conn, nil }
			rc := region.NewClient("rs1:1", region.RegionClient, 3, time.Millisecond, "root", 30*time.Second, codec, dial, quietLogger)
			reg := region.NewInfo(1, nil, []byte("t"), []byte("t,,1"), nil, nil)
			srv := &sim.Server{Conn: conn, Compressed: codec != nil}
			if err := rc.Dial(context.Background()); err != nil {
				return err
			}
			go srv.ServeReal(func(f *sim.Frame) []byte {
				resp, cells := answer(f)
				return sim.EncodeResponseC(f.Header.GetCallId(), resp, nil, cells, codec != nil)
			})
			var wg sync.WaitGroup
			errs := make(chan error, 64)
			for g := 0; g < 4; g++ {
				g := g
				wg.Add(1)
				go func() {
					defer wg.Done()
					for j := 0; j < 4; j++ {
						key := fmt.Sprintf("g%dk%d", g, j)
						var opts []func(hrpc.Call) error
						if (g+j)%2 == 0 {
							opts = append(opts, hrpc.SkipBatch())
						}
						val := bytes.Repeat([]byte(key), 40)
						p, _ := hrpc.NewPutStr(context.Background(), "t", key, map[string]map[string][]byte{"f": {"q": val}}, opts...)
						p.SetRegion(reg)
						rc.QueueRPC(p)
						select {
						case res := <-p.ResultChan():
							if res.Error != nil {
								errs <- fmt.Errorf("put %s: %v", key, res.Error)
								return
							}
						case <-time.After(raceWait):
							errs <- fmt.Errorf("put %s: no response within 100 s\n%s", key, allStacks())
							return
						}
					}
				}()
			}
			wg.Wait()
			rc.Close()
			vrt.HLock()
			defer vrt.HUnlock()
			if len(srv.Errors) > 0 {
				return fmt.Errorf("the independent decoder rejected the stream: %v", srv.Errors)
			}
			n := 0
			for _, fr := range srv.Frames {
				for _, c := range fr.Cells {
					n++
					if !bytes.Equal(c.Value, bytes.Repeat(c.Row, 40)) {
						return fmt.Errorf("row %q was written with another request's value %.20q", c.Row, c.Value)
					}
				}
			}
			select {
			case e := <-errs:
				return e
			default:
			}
			if n != 16 {
				return fmt.Errorf("%d cells reached the server, 16 were sent", n)
			}
			return nil
		}
	}
	return []RaceBody{{"4 senders plain", run(nil)}, {"4 senders snappy", run(compression.New("snappy"))}}
}

func init() {
	register(&Prop{
		Race: c05Race,
		ID:   "C05", Level: "model_checking",
		Technique:   "every call shape / multi grouping sent through the real region client and parsed by an independent wire decoder (field-by-field comparison with the requested operation); concurrent senders on a non-TCP connection under all schedules with <=2 deviations",
		Rule:        "(0) every mutation kind with rows of 255..65539 bytes x families of 1..258 bytes, around the widths of the KeyValue length fields: on the wire as built, or refused when built. (1) shapes: 5 mutation kinds x 5 value-map shapes x 5 timestamps x 5 durabilities x TTL (one factor at a time plus a third of the pairs; thorough: full product), check-and-put, gets with 10 options singly and in pairs, scans with 9 options x 3 bounds, scanner continue/close/renew; plain and snappy; (2) one multi-request for every sequence of 1-4 calls over two regions and 7 sequences over three regions (put/get/delete mixed), plain and snappy; (3) 2-3 concurrent senders (unbatched cellblock calls, a multi flush racing an unbatched call) on an in-memory net.Conn where a gather write is several Writes, all schedules with <=2 deviations; (4) values around 1 and 2 compression chunks. Oracle: preamble and connection header, frame length, unique call ids, method name, priority, cell_block_meta.length = trailing bytes, cells = sum of associated_cell_count, decoded operation = requested operation, region name per action, per-region batch order. Non-trivial = every unit (distinct shapes / schedules).",
		Assumptions: []string{"kernel-TCP atomicity of one writev is the kernel's and package net's (not explorable by a scheduler that does not model the socket lock)", "map iteration inside the client is deterministic under instrumentation (sorted / insertion order); family orders are varied by the shapes instead"},
		Quick:       150 * time.Second, Thorough: 20 * time.Minute,
		Units: c05Units,
	})
}
