package checks

import (
	"os"
	"bytes"
	"context"
	"errors"
	"fmt"
	"io"
	"sort"
	"strings"
	"time"

	"github.com/tsuna/gohbase"
	"github.com/tsuna/gohbase/hrpc"
	"github.com/tsuna/gohbase/pb"
	"github.com/tsuna/gohbase/region"
	"google.golang.org/protobuf/proto"

	"verif/explore"
	"verif/sim"
	"verif/vrt"
)

// C06 / C14: the real scanner over a simulated RPCClient whose every response
// shape is an environment choice (all chunkings), plus scan endings.

type scell struct{ row, q string }

type srvScanner struct {
	cells      []scell // remaining cells of this region scan, in scan order
	rowLeft    map[string]int
	heartbeat  int
	deferred   bool
	lastRegion bool
	region     string
}

type scanSim struct {
	cfg      scanCfg
	regs     []hrpc.RegionInfo
	starts   [][]byte // private copies of the region bounds (the oracle never trusts shared objects)
	stops    [][]byte
	open     map[uint64]*srvScanner
	nextID   uint64
	requests int
	errs     []string
	opened   int
	closedBy map[uint64]string
	renews   int
	noChoice bool            // deliver everything at once (second scan of a "twice" configuration)
	usedIDs  map[uint64]bool // scanner ids the client has presented in a request: it knows them
}

type scanCfg struct {
	rows        []string
	ncells      int
	bounds      []string
	start, stop string
	rev         bool
	nrows       uint32
	partial     bool
	twice       bool // run the same scan twice through the same client (same region objects)
	renew       time.Duration
	// endings (C14)
	endKind string // "", close, error, cancel, nomore
	endAt   int
}

func (c scanCfg) String() string {
	return fmt.Sprintf("rows=%q cells=%d bounds=%q [%q,%q) rev=%v nrows=%d partial=%v twice=%v renew=%v end=%s@%d",
		c.rows, c.ncells, c.bounds, c.start, c.stop, c.rev, c.nrows, c.partial, c.twice, c.renew, c.endKind, c.endAt)
}

func newScanSim(c scanCfg) *scanSim {
	s := &scanSim{cfg: c, open: map[uint64]*srvScanner{}, closedBy: map[uint64]string{}}
	prev := ""
	mk := func(a, b string) {
		s.regs = append(s.regs, region.NewInfo(1, nil, []byte("t"), []byte("t,"+a+",1.x."), []byte(a), []byte(b)))
		s.starts = append(s.starts, []byte(a))
		s.stops = append(s.stops, []byte(b))
	}
	for _, b := range c.bounds {
		mk(prev, b)
		prev = b
	}
	mk(prev, "")
	return s
}

func (s *scanSim) regionIdx(key []byte) int {
	for i := range s.regs {
		if bytes.Compare(key, s.starts[i]) >= 0 && (len(s.stops[i]) == 0 || bytes.Compare(key, s.stops[i]) < 0) {
			return i
		}
	}
	return -1
}

func inScanRange(row string, start, stop []byte, rev bool) bool {
	r := []byte(row)
	if !rev {
		return (len(start) == 0 || bytes.Compare(r, start) >= 0) && (len(stop) == 0 || bytes.Compare(r, stop) < 0)
	}
	return (len(start) == 0 || bytes.Compare(r, start) <= 0) && (len(stop) == 0 || bytes.Compare(r, stop) > 0)
}

var errBoom = errors.New("sim: injected scan failure")

func (s *scanSim) SendRPC(call hrpc.Call) (proto.Message, error) {
	vrt.Yield("sim.SendRPC")
	sc, ok := call.(*hrpc.Scan)
	if !ok {
		return nil, errors.New("sim: not a scan")
	}
	if err := call.Context().Err(); err != nil {
		s.requests++
		return nil, err
	}
	ri := s.regionIdx(call.Key())
	if os.Getenv("VERIF_DEBUG") != "" {
		fmt.Fprintf(os.Stderr, "scan request key=%q start=%q -> region %d\n", call.Key(), sc.StartRow(), ri)
	}
	call.SetRegion(s.regs[ri])
	return s.serve(sc.ToProto().(*pb.ScanRequest), ri)
}

// serve answers one scan request addressed to region ri (shared by the RPCClient-level
// adversary and by the wire-level server of tier W).
func (s *scanSim) serve(req *pb.ScanRequest, ri int) (*pb.ScanResponse, error) {
	s.requests++
	reg := s.regs[ri]
	isClose := req.GetCloseScanner() && req.ScannerId != nil && req.GetNumberOfRows() == 0
	if s.cfg.endKind == "error" && !isClose && !req.GetRenew() && s.requests == s.cfg.endAt {
		return nil, errBoom
	}
	var ss *srvScanner
	var id uint64
	if req.ScannerId == nil {
		sp := req.GetScan()
		rev := sp.GetReversed()
		ss = &srvScanner{rowLeft: map[string]int{}, region: string(reg.Name())}
		rows := append([]string(nil), s.cfg.rows...)
		sort.Strings(rows)
		if rev {
			for i, j := 0, len(rows)-1; i < j; i, j = i+1, j-1 {
				rows[i], rows[j] = rows[j], rows[i]
			}
		}
		more := false
		// HBase (ProtobufUtil.toScan): a request without the include_stop_row flag (this client's protobuf has none) whose start
		// and stop rows are equal and not empty comes from an old client and is a get of that row
		getScan := len(sp.GetStartRow()) > 0 && bytes.Equal(sp.GetStartRow(), sp.GetStopRow())
		for _, r := range rows {
			if getScan {
				if r != string(sp.GetStartRow()) {
					continue
				}
			} else if !inScanRange(r, sp.GetStartRow(), sp.GetStopRow(), rev) {
				continue
			}
			if s.regionIdx([]byte(r)) != ri {
				if (!rev && bytes.Compare([]byte(r), s.starts[ri]) > 0) || (rev && bytes.Compare([]byte(r), s.starts[ri]) < 0) {
					more = true
				}
				continue
			}
			for c := 0; c < s.cfg.ncells; c++ {
				ss.cells = append(ss.cells, scell{r, fmt.Sprintf("q%d", c)})
			}
			ss.rowLeft[r] = s.cfg.ncells
		}
		ss.lastRegion = !more
		s.nextID++
		id = s.nextID
		s.open[id] = ss
		s.opened++
	} else {
		id = req.GetScannerId()
		if s.usedIDs == nil {
			s.usedIDs = map[uint64]bool{}
		}
		s.usedIDs[id] = true
		ss = s.open[id]
		if ss == nil && isClose && s.cfg.endKind == "cancel-at-step" && s.closedBy[id] == "exhausted" {
			// the context ended while the response that reported the end of the region was
			// on its way: the client cannot know that the server has closed the scanner
			// already, and closing it once more is exactly what it should do
			return nil, errors.New("org.apache.hadoop.hbase.UnknownScannerException")
		}
		if ss == nil {
			s.errs = append(s.errs, fmt.Sprintf("request for unknown scanner %d (closed by %q)", id, s.closedBy[id]))
			return nil, errors.New("org.apache.hadoop.hbase.UnknownScannerException")
		}
	}
	resp := &pb.ScanResponse{ScannerId: proto.Uint64(id)}
	if isClose {
		delete(s.open, id)
		s.closedBy[id] = "client close"
		return resp, nil
	}
	if req.GetRenew() {
		if s.cfg.endKind == "renewerror" && s.renews+1 == s.cfg.endAt {
			// a lease renewal that fails: the renewer gives up, the scan itself is unaffected
			s.renews++
			return nil, errBoom
		}
		s.renews++
		resp.MoreResultsInRegion = proto.Bool(true)
		resp.MoreResults = proto.Bool(true)
		return resp, nil
	}
	// choose how many cells to deliver, limited by the row limit
	maxRows := int(req.GetNumberOfRows())
	limit := 0
	seen := map[string]bool{}
	for _, c := range ss.cells {
		if !seen[c.row] && len(seen) == maxRows {
			break
		}
		seen[c.row] = true
		limit++
	}
	lo := 0
	if ss.heartbeat >= 1 && limit > 0 {
		lo = 1 // one empty heartbeat per region scanner: the liberty is capped or the tree is infinite
	}
	k := limit
	if !s.noChoice {
		// alternative 0 = everything allowed by the row limit, then fewer and fewer cells
		k = limit - vrt.Choose(limit-lo+1, "cells-in-response", 0)
	}
	if k == 0 && limit > 0 {
		ss.heartbeat++
	}
	var cur *pb.Result
	curRow := ""
	for _, c := range ss.cells[:k] {
		if cur == nil || c.row != curRow {
			cur = &pb.Result{}
			resp.Results = append(resp.Results, cur)
			curRow = c.row
		}
		cur.Cell = append(cur.Cell, &pb.Cell{Row: []byte(c.row), Family: []byte("f"), Qualifier: []byte(c.q), Value: []byte(c.row + c.q)})
		ss.rowLeft[c.row]--
		cur.Partial = proto.Bool(ss.rowLeft[c.row] > 0)
	}
	ss.cells = ss.cells[k:]
	exhausted := len(ss.cells) == 0
	inRegion := true
	if exhausted {
		if ss.deferred || s.noChoice || vrt.Choose(2, "report-end-of-region", 0) == 0 {
			inRegion = false
		} else {
			ss.deferred = true
		}
	}
	resp.MoreResultsInRegion = proto.Bool(inRegion)
	resp.MoreResults = proto.Bool(true)
	if exhausted && ss.lastRegion && !s.noChoice && vrt.Choose(2, "early-no-more-results", 0) == 1 {
		resp.MoreResults = proto.Bool(false)
	}
	if s.cfg.endKind == "nomore" && s.requests == s.cfg.endAt {
		// the server declares the whole scan finished while this region scanner is still open
		resp.MoreResults = proto.Bool(false)
		resp.MoreResultsInRegion = proto.Bool(true)
		inRegion = true
	}
	if !inRegion || req.GetCloseScanner() {
		delete(s.open, id)
		s.closedBy[id] = "exhausted"
	}
	return resp, nil
}

type scanObs struct {
	got                []string
	errs               []string
	open               int
	sim                *scanSim
	afterEOF           []error
	endErr             error
	endSeen            int
	mutated            string
	nextN              int
	second             []string
	startStep, endStep int
}

func fmtResult(r *hrpc.Result) string {
	if r == nil {
		return "<nil>"
	}
	var sb strings.Builder
	for _, cl := range r.Cells {
		sb.WriteString(string(cl.Row) + ":" + string(cl.Qualifier) + " ")
	}
	if r.Partial {
		sb.WriteString("(partial)")
	}
	return strings.TrimSpace(sb.String())
}

func scanBody(c scanCfg, out *scanObs) func() {
	return func() {
		*out = scanObs{}
		sim := newScanSim(c)
		out.sim = sim
		runScan := func(dst *[]string, ending bool) {
			ctx, cancel := context.WithCancel(context.Background())
			defer cancel()
			opts := []func(hrpc.Call) error{hrpc.NumberOfRows(c.nrows)}
			if c.rev {
				opts = append(opts, hrpc.Reversed())
			}
			if c.partial {
				opts = append(opts, hrpc.AllowPartialResults())
			}
			if c.renew > 0 {
				opts = append(opts, hrpc.RenewInterval(c.renew))
			}
			sc, err := hrpc.NewScanRangeStr(ctx, "t", c.start, c.stop, opts...)
			if err != nil {
				panic(err)
			}
			s := gohbase.VNewScanner(sim, sc, quietLogger)
			for i := 0; i < 200; i++ {
				if ending && c.endKind == "close" && i == c.endAt {
					s.Close()
				}
				if ending && c.endKind == "cancel" && i == c.endAt {
					cancel()
				}
				if c.renew > 0 {
					vrt.Sleep(c.renew + c.renew/2) // a slow consumer: the renewer gets to run
				}
				r, err := s.Next()
				out.nextN++
				if err == io.EOF {
					break
				}
				if err != nil {
					out.endErr = err
					out.endSeen++
					if r != nil {
						*dst = append(*dst, fmtResult(r))
					}
					continue // keep calling: from now on it must say EOF
				}
				*dst = append(*dst, fmtResult(r))
			}
			for i := 0; i < 2; i++ {
				_, e := s.Next()
				out.afterEOF = append(out.afterEOF, e)
			}
			s.Close()
			s.Close()
		}
		runScan(&out.got, true)
		if c.twice {
			sim.noChoice = true
			runScan(&out.second, false)
		}
		vrt.Sleep(time.Hour) // let asynchronous close requests drain, renewers exit
		out.open = len(sim.open)
		for i, r := range sim.regs {
			if !bytes.Equal(r.StartKey(), sim.starts[i]) || !bytes.Equal(r.StopKey(), sim.stops[i]) {
				out.mutated = fmt.Sprintf("region %d: now [%q,%q), was [%q,%q)", i, r.StartKey(), r.StopKey(), sim.starts[i], sim.stops[i])
			}
		}
	}
}

func expectedRows(c scanCfg) []string {
	rows := append([]string(nil), c.rows...)
	sort.Strings(rows)
	if c.rev {
		for i, j := 0, len(rows)-1; i < j; i, j = i+1, j-1 {
			rows[i], rows[j] = rows[j], rows[i]
		}
	}
	var out []string
	for _, r := range rows {
		if c.start != "" && c.start == c.stop {
			// the caller asked for [x, x): by HBase's convention (see serve) that is a get of x
			if r != c.start {
				continue
			}
		} else if !inScanRange(r, []byte(c.start), []byte(c.stop), c.rev) {
			continue
		}
		var sb []string
		for q := 0; q < c.ncells; q++ {
			sb = append(sb, fmt.Sprintf("%s:q%d", r, q))
		}
		out = append(out, strings.Join(sb, " "))
	}
	return out
}

// mergeFragments concatenates the fragments of a row (partial results allowed).
func mergeFragments(got []string) []string {
	var merged []string
	lastRow := "\x00none"
	for _, g := range got {
		g = strings.TrimSpace(strings.TrimSuffix(g, "(partial)"))
		if g == "" {
			continue
		}
		row := g[:strings.LastIndex(strings.SplitN(g, " ", 2)[0], ":")]
		if row == lastRow {
			merged[len(merged)-1] += " " + g
		} else {
			merged = append(merged, g)
			lastRow = row
		}
	}
	return merged
}

func scanCheck(c scanCfg, out *scanObs, c14 bool) func(res *vrt.Result) *explore.Finding {
	return func(res *vrt.Result) *explore.Finding {
		if f := baseFinding(res); f != nil {
			if strings.HasPrefix(f.Class, "step-horizon") {
				f.Class = "scanner-never-quiesces (renewer or close loop left running)"
			}
			f.Msg += "\n" + c.String()
			return f
		}
		if res.Deadlock {
			return &explore.Finding{Class: "scanner-call-blocked-forever", Msg: fmt.Sprintf("blocked=%v\n%s", res.Blocked, c)}
		}
		if out.sim == nil {
			return nil
		}
		if len(out.sim.errs) > 0 {
			return &explore.Finding{Class: "request-for-closed-or-unknown-server-scanner", Msg: fmt.Sprintf("%v\n%s", out.sim.errs, c)}
		}
		if out.mutated != "" {
			return &explore.Finding{Class: "shared-region-descriptor-mutated", Msg: out.mutated + "\n" + c.String()}
		}
		exp := expectedRows(c)
		norm := func(g []string) []string {
			if c.partial {
				return mergeFragments(g)
			}
			return g
		}
		got := norm(out.got)
		ended := c.endKind != "" && c.endKind != "renewerror"
		if !ended {
			if out.endSeen > 0 {
				return &explore.Finding{Class: "scan-failed-without-cause", Msg: fmt.Sprintf("%v\n%s", out.endErr, c)}
			}
			if strings.Join(got, "|") != strings.Join(exp, "|") {
				if c.rev && c.start == "" {
					return &explore.Finding{Class: "reversed-scan-without-start-row-is-sent-to-the-first-region", Msg: fmt.Sprintf("got  %q\nwant %q\n%s", got, exp, c)}
				}
				return &explore.Finding{Class: "scan-result-differs-from-table", Msg: fmt.Sprintf("got  %q\nwant %q\n%s", got, exp, c)}
			}
			if c.twice {
				if g2 := norm(out.second); strings.Join(g2, "|") != strings.Join(exp, "|") {
					return &explore.Finding{Class: "second-scan-through-same-client-differs", Msg: fmt.Sprintf("got  %q\nwant %q\n%s", g2, exp, c)}
				}
			}
		} else {
			// an ended scan returns a prefix of the table (the last row may be incomplete when an error cut it)
			for i, g := range got {
				g = strings.TrimSpace(strings.TrimSuffix(g, "(partial)"))
				if i >= len(exp) || (g != exp[i] && !(i == len(got)-1 && strings.HasPrefix(exp[i], g))) {
					return &explore.Finding{Class: "ended-scan-returned-wrong-rows", Msg: fmt.Sprintf("got  %q\nwant a prefix of %q\n%s", got, exp, c)}
				}
			}
			if out.endSeen > 1 {
				return &explore.Finding{Class: "error-or-cancellation-reported-more-than-once", Msg: fmt.Sprintf("Next returned the error %d times (%v) instead of io.EOF after the first\n%s", out.endSeen, out.endErr, c)}
			}
		}
		for _, e := range out.afterEOF {
			if e != io.EOF {
				return &explore.Finding{Class: "next-after-end-not-eof", Msg: fmt.Sprintf("Next after the end of the scan returned %v\n%s", e, c)}
			}
		}
		if out.open != 0 {
			var regs []string
			for id, s := range out.sim.open {
				regs = append(regs, fmt.Sprintf("%d@%s", id, s.region))
			}
			return &explore.Finding{Class: "server-side-scanner-left-open", Msg: fmt.Sprintf("%d region scanner(s) still open on the server after the scan ended and closes drained: %v\n%s", out.open, regs, c)}
		}
		if cb := clientBlocked(res); len(cb) > 0 {
			return &explore.Finding{Class: "client-thread-left-blocked", Msg: fmt.Sprintf("%v\n%s", cb, c)}
		}
		return nil
	}
}

func scanUnit(c scanCfg, c14 bool) *explore.Unit {
	out := &scanObs{}
	return &explore.Unit{Name: c.String(), Bound: 0, Opt: vrt.Options{MaxSteps: 50000},
		Body: scanBody(c, out), Check: scanCheck(c, out, c14),
		Sig: func() string {
			if out.sim == nil {
				return "?"
			}
			return fmt.Sprintf("req=%d opened=%d rows=%d end=%d", out.sim.requests, out.sim.opened, len(out.got), out.endSeen)
		}}
}

type keySet struct {
	keys   []string
	limits []string
	bounds [][]string
}

func scanKeySets(thorough bool) []keySet {
	ks := []keySet{
		{[]string{"a", "b", "c"}, []string{"", "a", "b", "c", "d"}, [][]string{nil, {"b"}, {"c"}, {"b", "c"}}},
		{[]string{"a", "a\x00", "b"}, []string{"", "a", "a\x00", "b", "b\x00"}, [][]string{{"a\x00"}, {"b"}, {"a\x00", "b"}}},
		{[]string{"a\xff", "b", "b\x00\x00"}, []string{"", "a\xff", "b", "b\x00", "b\x00\x00", "c"}, [][]string{{"b"}, {"b\x00"}, {"b", "b\x00\x00"}}},
		// the smallest keys there are: a region that starts at 0x00 has no row before it
		{[]string{"\x00", "\x00\x00", "a"}, []string{"", "\x00", "\x00\x00", "a", "b"}, [][]string{{"\x00"}, {"\x00\x00"}, {"\x00", "a"}}},
	}
	if thorough {
		ks = append(ks, keySet{[]string{"a", "b", "c", "d"}, []string{"", "a", "b", "bb", "c", "d", "e"}, [][]string{nil, {"b"}, {"bb"}, {"b", "c"}, {"b", "c", "d"}, {"bb", "d"}}})
	}
	return ks
}

func c06Units(thorough bool) []*explore.Unit {
	units := scanWireUnits(thorough, false)
	for ki, ks := range scanKeySets(thorough) {
		for mask := 1; mask < 1<<len(ks.keys); mask++ {
			if !thorough && ki > 0 && bitsSet(mask) < 2 {
				continue
			}
			var rows []string
			for i, k := range ks.keys {
				if mask&(1<<i) != 0 {
					rows = append(rows, k)
				}
			}
			cellsOpts := []int{1, 2}
			if thorough && ki == 0 {
				cellsOpts = []int{1, 2, 3}
			}
			if !thorough && ki > 0 {
				cellsOpts = []int{2}
			}
			for _, ncells := range cellsOpts {
				for _, bounds := range ks.bounds {
					for _, start := range ks.limits {
						for _, stop := range ks.limits {
							for _, rev := range []bool{false, true} {
								if rev && start == "" && ncells != cellsOpts[0] {
									// a reversed scan without a start row is an open known finding
									// (judged in a small family only)
									continue
								}
								for _, nrows := range []uint32{1, 2, 100} {
									if nrows == 2 && !thorough {
										continue
									}
									for _, partial := range []bool{false, true} {
										c := scanCfg{rows: rows, ncells: ncells, bounds: bounds, start: start, stop: stop, rev: rev, nrows: nrows, partial: partial}
										// the second scan through the same client matters where region descriptors are reused
										c.twice = rev && len(bounds) > 0 && nrows == 100 && !partial
										units = append(units, scanUnit(c, false))
									}
								}
							}
						}
					}
				}
			}
		}
	}
	return units
}

func c14Units(thorough bool) []*explore.Unit {
	units := scanWireUnits(thorough, true)
	rowsets := [][]string{{"a", "b", "c"}}
	if thorough {
		rowsets = append(rowsets, []string{"a", "c"}, []string{"a", "b", "c", "d"})
	}
	for _, rows := range rowsets {
		for _, ncells := range []int{1, 2} {
			for _, bounds := range [][]string{nil, {"b"}, {"b", "c"}} {
				for _, rng := range [][2]string{{"", ""}, {"a", "c"}, {"c", "a"}, {"b", ""}, {"d", ""}} {
					for _, rev := range []bool{false, true} {
						if rev && rng[0] == "" {
							continue
						}
						if !rev && rng[0] > rng[1] && rng[1] != "" {
							continue
						}
						for _, nrows := range []uint32{1, 100} {
							for _, partial := range []bool{false, true} {
								base := scanCfg{rows: rows, ncells: ncells, bounds: bounds, start: rng[0], stop: rng[1], rev: rev, nrows: nrows, partial: partial}
								// natural end, with and without a lease renewer
								units = append(units, scanUnit(base, true))
								if nrows == 1 && !partial {
									rn := base
									rn.renew = 10 * time.Second
									units = append(units, scanUnit(rn, true))
									for at := 1; at <= 2; at++ {
										if !thorough && (at > 1 || ncells > 1 || len(bounds) > 1) {
											continue
										}
										re := rn
										re.endKind, re.endAt = "renewerror", at
										units = append(units, scanUnit(re, true))
									}
								}
								maxAt := 4
								if thorough {
									maxAt = 7
								}
								for _, kind := range []string{"close", "cancel", "error", "nomore"} {
									for at := 0; at <= maxAt; at++ {
										if (kind == "error" || kind == "nomore") && at == 0 {
											continue
										}
										e := base
										e.endKind, e.endAt = kind, at
										units = append(units, scanUnit(e, true))
										if thorough && kind != "nomore" && nrows == 1 && !partial && at <= 2 {
											e.renew = 10 * time.Second
											units = append(units, scanUnit(e, true))
										}
									}
								}
							}
						}
					}
				}
			}
		}
	}
	return units
}

func init() {
	register(&Prop{
		ID: "C06", Level: "model_checking",
		Technique:   "exhaustive enumeration of every server chunking (environment choices of the controlled runtime) for every small table / layout / range / direction, real scanner code against a sorted range-filtered model",
		Rule:        "configurations = every non-empty subset of 3 (thorough 4) row keys from key sets incl. keys ending in 00 and ff x 1-2(3) cells x 1-3(4) regions x every [start,stop) over boundary and non-boundary keys x direction x row limit {1,(2),inf} x partials on/off; for each, EVERY response shape: number of cells per response (0 = heartbeat, once per region scanner), end of region reported with the data or in a separate empty response (once), early more_results=false. Reversed multi-region scans are run twice through the same client. Non-trivial = at least one non-default chunking choice.",
		Assumptions: []string{"row keys without a run of eight 0xff bytes", "a reversed scan WITHOUT a start row is explored in a small family and is an open known finding", "heartbeats / deferred end-of-region reports capped at one per region scanner (uncapped the choice tree is infinite)", "default thread schedule; the scanner is sequential apart from asynchronous close requests"},
		Quick:       120 * time.Second, Thorough: 20 * time.Minute,
		Units: c06Units,
	})
	register(&Prop{
		ID: "C14", Level: "model_checking",
		Technique:   "the C06 harness with the scan ended at every point (Close, RPC error, cancellation, server-declared end) crossed with every server chunking; server-side scanner table as observer",
		Rule:        "configurations as C06 (3 rows, 1-2 cells, 1-3 regions, 5 ranges, both directions, row limit 1/inf, partials on/off) x ending {none, Close after k Next calls, cancel after k, RPC error on request j, more_results=false on request j while the region scanner is open} for every k,j <= 4 (thorough 7) x lease renewer on/off (and the j-th lease renewal failing: the scan must be unaffected); every chunking enumerated. Oracle: error/cancellation reported once then io.EOF; Close idempotent; after draining, no region scanner open on the server; no client thread left (the renewer has exited). Non-trivial = at least one non-default chunking choice. On tier W the scan's context additionally ends at EVERY scheduling step of a thread running client code between the first Next and the end of the scan (2 regions, 2 cells, row limit 1/inf, partials on/off, default chunking) (vrt.GoInterrupt: the event's thread is created waiting for that step and is the default choice there, so its position is a parameter of the unit and costs no deviation) with <=1 further deviation (thorough 2 with row limit 1); there only region scanners whose id the client has used count as left open.",
		Assumptions: []string{"as C06"},
		Quick:       120 * time.Second, Thorough: 20 * time.Minute,
		Units: c14Units,
	})
}

func bitsSet(m int) int {
	n := 0
	for ; m != 0; m &= m - 1 {
		n++
	}
	return n
}

// ---- tier W: the same adversary behind the wire (real client, real region clients,
// cells travelling in cellblocks with cells_per_result / partial flags)

func scanWireUnit(c scanCfg) *explore.Unit {
	u, _ := scanWireUnitObs(c)
	return u
}

func scanWireUnitObs(c scanCfg) (*explore.Unit, *scanObs) {
	out := &scanObs{}
	u := &explore.Unit{Name: "wire|" + c.String(), Bound: 0, Opt: vrt.Options{MaxSteps: 120000}}
	u.Body = func() {
		*out = scanObs{}
		ss := newScanSim(c)
		out.sim = ss
		cl := sim.NewCluster("rs0:1")
		cl.AddTable("t", c.bounds, []string{"rs1:1", "rs2:1"})
		idxOf := func(reg *sim.Region) int {
			for i := range ss.starts {
				if string(ss.starts[i]) == string(reg.Start) {
					return i
				}
			}
			return -1
		}
		cl.ScanHandler = func(reg *sim.Region, req *pb.ScanRequest) (*pb.ScanResponse, []sim.KV, string) {
			resp, err := ss.serve(req, idxOf(reg))
			if err != nil {
				return nil, nil, "org.apache.hadoop.hbase.DoNotRetryIOException"
			}
			var cells []sim.KV
			for _, r := range resp.Results {
				resp.CellsPerResult = append(resp.CellsPerResult, uint32(len(r.Cell)))
				resp.PartialFlagPerResult = append(resp.PartialFlagPerResult, r.GetPartial())
				for _, cc := range r.Cell {
					cells = append(cells, sim.KV{Row: cc.Row, Family: cc.Family, Qualifier: cc.Qualifier, Value: cc.Value, TS: 7, Type: 4})
				}
			}
			resp.Results = nil
			return resp, cells, ""
		}
		w := newWorldW(cl, gohbase.FlushInterval(0), gohbase.RpcQueueSize(1))
		ctx, cancel := context.WithCancel(context.Background())
		opts := []func(hrpc.Call) error{hrpc.NumberOfRows(c.nrows)}
		if c.rev {
			opts = append(opts, hrpc.Reversed())
		}
		if c.partial {
			opts = append(opts, hrpc.AllowPartialResults())
		}
		sc, err := hrpc.NewScanRangeStr(ctx, "t", c.start, c.stop, opts...)
		if err != nil {
			panic(err)
		}
		s := w.client.Scan(sc)
		out.startStep = vrt.Steps()
		if c.endKind == "cancel-at-step" {
			// the context ends at that scheduling step, whatever the scan is doing then
			ss.noChoice = true
			vrt.GoInterrupt("h:canceller", func() bool { return c.endAt >= 0 && vrt.Steps() >= c.endAt }, cancel)
		}
		for i := 0; i < 200; i++ {
			if c.endKind == "close" && i == c.endAt {
				s.Close()
			}
			if c.endKind == "cancel" && i == c.endAt {
				cancel()
			}
			r, err := s.Next()
			out.nextN++
			if err == io.EOF {
				break
			}
			if err != nil {
				out.endErr = err
				out.endSeen++
				if r != nil {
					out.got = append(out.got, fmtResult(r))
				}
				continue
			}
			out.got = append(out.got, fmtResult(r))
		}
		out.endStep = vrt.Steps()
		for i := 0; i < 2; i++ {
			_, e := s.Next()
			out.afterEOF = append(out.afterEOF, e)
		}
		s.Close()
		vrt.Sleep(time.Hour)
		out.open = len(ss.open)
		if c.endKind == "cancel-at-step" {
			// a region scanner whose opening request was still in flight when the context
			// ended has an id the client never learned; only the ones it has used count
			out.open = 0
			for id := range ss.open {
				if ss.usedIDs[id] {
					out.open++
				}
			}
		}
		w.client.Close()
		vrt.Sleep(10 * time.Minute)
		cancel()
	}
	chk := scanCheck(c, out, true)
	u.Check = func(res *vrt.Result) *explore.Finding {
		f := chk(res)
		if f != nil && f.Class == "shared-region-descriptor-mutated" {
			return nil // the wire units use the cluster's regions, not the adversary's descriptors
		}
		return f
	}
	u.Sig = func() string {
		if out.sim == nil {
			return "?"
		}
		return fmt.Sprintf("wire req=%d opened=%d rows=%d", out.sim.requests, out.sim.opened, len(out.got))
	}
	return u, out
}

// scanCancelAtStepUnits: the scan's context ends at every scheduling step of a thread that
// runs client code between the first Next and the end of the scan (default chunking).
func scanCancelAtStepUnits(base scanCfg, thorough bool) []*explore.Unit {
	probe := base
	probe.endKind, probe.endAt = "cancel-at-step", -1
	pu, po := scanWireUnitObs(probe)
	vrt.Tracing = true
	res, _ := explore.RunOnce(pu, nil)
	vrt.Tracing = false
	var units []*explore.Unit
	for i, line := range res.Trace {
		k := res.TraceSteps[i]
		if k < po.startStep || harnessThread(strings.SplitN(line, " ", 2)[0]) && !strings.Contains(line, ":main ") {
			continue
		}
		if k > po.endStep {
			break
		}
		e := base
		e.endKind, e.endAt = "cancel-at-step", k
		u := scanWireUnit(e)
		u.Bound = 1
		if thorough && base.nrows == 1 {
			u.Bound = 2
		}
		units = append(units, u)
	}
	return units
}

func scanWireUnits(thorough bool, endings bool) []*explore.Unit {
	var units []*explore.Unit
	rows := []string{"a", "b", "c"}
	for _, ncells := range []int{1, 2} {
		for _, bounds := range [][]string{nil, {"b"}, {"b", "c"}} {
			for _, rng := range [][2]string{{"", ""}, {"a", "c"}, {"c", "a"}, {"b", ""}, {"c", ""}} {
				for _, rev := range []bool{false, true} {
					if rev && rng[0] == "" {
						continue
					}
					if !rev && rng[1] != "" && rng[0] > rng[1] {
						continue
					}
					for _, nrows := range []uint32{1, 100} {
						for _, partial := range []bool{false, true} {
							base := scanCfg{rows: rows, ncells: ncells, bounds: bounds, start: rng[0], stop: rng[1], rev: rev, nrows: nrows, partial: partial}
							if !endings {
								units = append(units, scanWireUnit(base))
								continue
							}
							if ncells == 1 && !thorough {
								continue
							}
							for _, kind := range []string{"close", "cancel", "nomore"} {
								for at := 1; at <= 3; at++ {
									e := base
									e.endKind, e.endAt = kind, at
									units = append(units, scanWireUnit(e))
								}
							}
							if ncells == 2 && len(bounds) == 1 && rng[0] == "" {
								units = append(units, scanCancelAtStepUnits(base, thorough)...)
							}
						}
					}
				}
			}
		}
	}
	return units
}
