package checks

import (
	"context"
	"fmt"
	"strings"
	"time"

	"github.com/tsuna/gohbase/hrpc"

	"verif/explore"
	"verif/sim"
	"verif/vrt"
)

// C12: a batch executes each call once, in per-region order, or not at all.

func c12Check(p batchParams, out *batchObs) func(res *vrt.Result) *explore.Finding {
	return func(res *vrt.Result) *explore.Finding {
		if f := baseFinding(res); f != nil {
			f.Msg += "\n" + p.String()
			return f
		}
		if res.Deadlock {
			return &explore.Finding{Class: "batch-blocked-forever", Msg: fmt.Sprintf("blocked=%v\n%s", res.Blocked, p)}
		}
		cl := out.w.cl
		idx := map[any]int{}
		for i, c := range out.calls {
			idx[c] = i
		}
		show := func() string {
			var sb strings.Builder
			for _, a := range cl.Attempts {
				if i, ok := idx[a.Ident]; ok && a.Kind != "exists" {
					fmt.Fprintf(&sb, "\n  multi#%d %s: call %d (%s %s) -> %s", a.Tag, a.Server, i, a.Kind, a.Row, short(a.Outcome))
				}
			}
			return sb.String() + "\n" + p.String()
		}
		attempts := make([][]sim.Attempt, len(out.calls))
		for _, a := range cl.Attempts {
			if i, ok := idx[a.Ident]; ok && a.Kind != "exists" {
				attempts[i] = append(attempts[i], a)
			}
		}
		for i, k := range p.keys {
			as := attempts[i]
			execs := cl.ExecCount(out.calls[i])
			if execs > 1 {
				return &explore.Finding{Class: "call-executed-more-than-once", Msg: fmt.Sprintf("call %d (%s %s) was executed %d times%s", i, p.kinds[i], k, execs, show())}
			}
			for j, a := range as {
				// sent to the region owning the key (the executor answers NSRE otherwise, which is
				// legitimate only for a scripted 'not serving' outcome)
				if a.Misrouted() && !strings.Contains(p.scripts[i], "N") && p.event != "droptable" && !(p.pre == "merge" && j == 0) && p.pre != "merge-half" && p.pre != "two-merges" {
					return &explore.Finding{Class: "call-sent-to-wrong-region-or-server", Msg: fmt.Sprintf("call %d attempt %d refused as not serving%s", i, j, show())}
				}
				if j > 0 {
					prev := as[j-1].Outcome
					// only retryable classes may be sent again
					if prev == "ok" || prev == sim.ClsApp {
						return &explore.Finding{Class: "call-resent-after-final-outcome", Msg: fmt.Sprintf("call %d was sent again after outcome %q%s", i, short(prev), show())}
					}
				}
			}
		}
		// calls of the same region inside one multi-request appear in batch order
		for i := range p.keys {
			for j := i + 1; j < len(p.keys); j++ {
				for _, ai := range attempts[i] {
					for _, aj := range attempts[j] {
						if ai.Tag != 0 && ai.Tag == aj.Tag && ai.Region == aj.Region {
							if pos(cl.Attempts, ai) > pos(cl.Attempts, aj) {
								return &explore.Finding{Class: "same-region-calls-presented-out-of-batch-order",
									Msg: fmt.Sprintf("calls %d and %d (region %s) in multi#%d%s", i, j, ai.Region, ai.Tag, show())}
							}
						}
					}
				}
			}
		}
		// two calls for the same row are executed in batch order (the later write wins)
		for i := range p.keys {
			for j := i + 1; j < len(p.keys); j++ {
				if p.keys[i] != p.keys[j] || out.res == nil || out.res[i].Error != nil || out.res[j].Error != nil {
					continue
				}
				pi, pj := -1, -1
				for n, e := range cl.Log {
					if e.Ident == any(out.calls[i]) {
						pi = n
					}
					if e.Ident == any(out.calls[j]) {
						pj = n
					}
				}
				if pi >= 0 && pj >= 0 && pi > pj {
					return &explore.Finding{Class: "same-row-calls-executed-out-of-batch-order", Msg: fmt.Sprintf("calls %d and %d (row %q) both succeeded but were executed in the opposite order%s", i, j, p.keys[i], show())}
				}
			}
		}
		// the increment model table: one successful increment = +1
		for i, k := range p.keys {
			if p.kinds[i] == "inc" && out.res != nil && out.res[i].Error == nil && cl.Counters["t/"+k] != 1 {
				return &explore.Finding{Class: "call-executed-more-than-once", Msg: fmt.Sprintf("counter of %q is %d after one successful increment%s", k, cl.Counters["t/"+k], show())}
			}
		}
		return nil
	}
}

func pos(as []sim.Attempt, a sim.Attempt) int {
	for i := range as {
		if as[i].Ident == a.Ident && as[i].Tag == a.Tag && as[i].At == a.At && as[i].Outcome == a.Outcome {
			return i
		}
	}
	return -1
}

func short(cls string) string {
	if i := strings.LastIndexByte(cls, '.'); i >= 0 {
		return cls[i+1:]
	}
	return cls
}

// ---- invalid batches: rejected as a whole, nothing sent

type c12Invalid struct {
	name  string
	build func(ctx context.Context) []hrpc.Call
}

func c12Invalids() []c12Invalid {
	get := func(ctx context.Context, t, k string, o ...func(hrpc.Call) error) hrpc.Call {
		g, _ := hrpc.NewGetStr(ctx, t, k, o...)
		return g
	}
	var out []c12Invalid
	for posn := 0; posn < 3; posn++ {
		posn := posn
		out = append(out, c12Invalid{fmt.Sprintf("other-table@%d", posn), func(ctx context.Context) []hrpc.Call {
			cs := []hrpc.Call{get(ctx, "t", "a"), get(ctx, "t", "b"), get(ctx, "t", "x")}
			cs[posn] = get(ctx, "t2", "a")
			if posn == 0 {
				cs[0] = get(ctx, "t", "a")
				cs[1] = get(ctx, "t2", "a")
			}
			return cs
		}})
		out = append(out, c12Invalid{fmt.Sprintf("repeated-call@%d", posn), func(ctx context.Context) []hrpc.Call {
			cs := []hrpc.Call{get(ctx, "t", "a"), get(ctx, "t", "b"), get(ctx, "t", "x")}
			cs[posn] = cs[(posn+1)%3]
			return cs
		}})
		out = append(out, c12Invalid{fmt.Sprintf("skipbatch-call@%d", posn), func(ctx context.Context) []hrpc.Call {
			cs := []hrpc.Call{get(ctx, "t", "a"), get(ctx, "t", "b"), get(ctx, "t", "x")}
			cs[posn] = get(ctx, "t", "c", hrpc.SkipBatch())
			return cs
		}})
		out = append(out, c12Invalid{fmt.Sprintf("scan-in-batch@%d", posn), func(ctx context.Context) []hrpc.Call {
			cs := []hrpc.Call{get(ctx, "t", "a"), get(ctx, "t", "b"), get(ctx, "t", "x")}
			sc, _ := hrpc.NewScanStr(ctx, "t")
			cs[posn] = sc
			return cs
		}})
	}
	return out
}

func c12Units(thorough bool) []*explore.Unit {
	units := c12WUnits(thorough)
	for _, inv := range c12Invalids() {
		for _, warm := range []bool{false, true} {
			inv, warm := inv, warm
			var w *world
			var res []hrpc.RPCResult
			var ok bool
			var base int
			u := &explore.Unit{Name: fmt.Sprintf("invalid|%s|warm=%v", inv.name, warm), Bound: 0, Opt: vrt.Options{MaxSteps: 60000}}
			u.Body = func() {
				cl := stdCluster()
				cl.AddTable("t2", nil, []string{"rs2:1"})
				w = newWorld(cl)
				if warm {
					g, _ := hrpc.NewGetStr(context.Background(), "t", "a")
					w.client.Get(g)
				}
				base = len(cl.Attempts)
				res, ok = w.client.SendBatch(context.Background(), inv.build(context.Background()))
				vrt.Sleep(time.Minute)
				w.client.Close()
				vrt.Sleep(10 * time.Minute)
			}
			u.Check = func(r *vrt.Result) *explore.Finding {
				if f := baseFinding(r); f != nil {
					return f
				}
				if r.Deadlock {
					return &explore.Finding{Class: "batch-blocked-forever", Msg: u.Name}
				}
				if ok {
					return &explore.Finding{Class: "invalid-batch-accepted", Msg: u.Name}
				}
				if n := len(w.cl.Attempts) - base; n != 0 {
					return &explore.Finding{Class: "invalid-batch-partly-sent", Msg: fmt.Sprintf("%s: %d request(s) reached a server: %v", u.Name, n, w.cl.Attempts[base:])}
				}
				bad := 0
				for _, rr := range res {
					if rr.Error != nil {
						bad++
					}
				}
				if bad == 0 {
					return &explore.Finding{Class: "invalid-batch-without-error", Msg: u.Name}
				}
				return nil
			}
			units = append(units, u)
		}
	}
	for _, p := range batchConfigs(thorough) {
		p := p
		out := &batchObs{}
		b := 0
		if p.event == "cancel" {
			b = 1
		}
		units = append(units, &explore.Unit{Name: p.String(), Bound: b, Opt: vrt.Options{MaxSteps: 60000},
			Body: batchBody(p, out), Check: c12Check(p, out), Sig: batchSig(out)})
	}
	// keys on and next to the region boundary ("m" is the first row of the second region): a
	// call for the boundary row must not ride along with the calls of the region that ends there
	for _, layout := range []string{"spread", "coloc"} {
		for _, keys := range [][]string{{"a", "m"}, {"m", "a"}, {"l\xff", "m", "m\x00"}, {"m\x00", "a", "m"}} {
			for _, sc := range []string{"", "N", "R"} {
				p := batchParams{layout: layout, keys: keys, ownCtx: -1}
				for i := range keys {
					p.kinds = append(p.kinds, []string{"get", "inc", "put"}[i%3])
					if i == 0 {
						p.scripts = append(p.scripts, sc)
					} else {
						p.scripts = append(p.scripts, "")
					}
				}
				out := &batchObs{}
				units = append(units, &explore.Unit{Name: p.String(), Bound: 0, Opt: vrt.Options{MaxSteps: 60000},
					Body: batchBody(p, out), Check: c12Check(p, out), Sig: batchSig(out)})
			}
		}
	}
	// the two regions are merged after the client has located them: calls that went to
	// different connections in the first round meet in one region in the second
	for _, layout := range []string{"spread", "coloc"} {
		for _, keys := range [][]string{{"a", "x", "b"}, {"x", "a", "y"}, {"a", "x", "b", "y"}, {"x", "y", "a", "z", "b"}} {
			p := batchParams{layout: layout, keys: keys, ownCtx: -1, pre: "merge"}
			for i := range keys {
				p.kinds = append(p.kinds, []string{"put", "inc", "get"}[i%3])
				p.scripts = append(p.scripts, "")
			}
			out := &batchObs{}
			units = append(units, &explore.Unit{Name: p.String(), Bound: 0, Opt: vrt.Options{MaxSteps: 60000},
				Body: batchBody(p, out), Check: c12Check(p, out), Sig: batchSig(out)})
		}
	}
	// only the first region is known to the client when the two are merged: the lookup for a
	// later call of the batch replaces (and marks dead) the region an earlier call was given
	// from the cache in the same pass; two calls for the same row must still be executed in
	// batch order
	for _, layout := range []string{"spread", "coloc"} {
		for _, keys := range [][]string{{"a", "x", "a"}, {"a", "a", "x", "a"}, {"b", "x", "a", "b"}} {
			p := batchParams{layout: layout, keys: keys, ownCtx: -1, pre: "merge-half"}
			for range keys {
				p.kinds = append(p.kinds, "put")
				p.scripts = append(p.scripts, "")
			}
			out := &batchObs{}
			units = append(units, &explore.Unit{Name: p.String(), Bound: 0, Opt: vrt.Options{MaxSteps: 60000},
				Body: batchBody(p, out), Check: c12Check(p, out), Sig: batchSig(out)})
		}
	}
	// the connection of the only known region was lost unnoticed: locating a later call of the
	// batch re-establishes that region on a new connection while an earlier call is already
	// grouped under the dead one
	for _, layout := range []string{"coloc", "spread"} {
		for _, keys := range [][]string{{"a", "x", "a"}, {"a", "b", "x", "a"}} {
			p := batchParams{layout: layout, keys: keys, ownCtx: -1, pre: "connlost-half"}
			for range keys {
				p.kinds = append(p.kinds, "put")
				p.scripts = append(p.scripts, "")
			}
			out := &batchObs{}
			units = append(units, &explore.Unit{Name: p.String(), Bound: 0, Opt: vrt.Options{MaxSteps: 60000},
				Body: batchBody(p, out), Check: c12Check(p, out), Sig: batchSig(out)})
		}
	}
	// two merges while two single gets locate the merged regions concurrently: a region a call
	// of the batch holds may be replaced more than once while the batch is being located
	{
		p := batchParams{layout: "spread", keys: []string{"d1", "b1", "a1", "d1"}, kinds: []string{"put", "put", "put", "put"}, scripts: []string{"", "", "", ""}, ownCtx: -1, pre: "two-merges"}
		out := &batchObs{}
		b := 1
		if thorough {
			b = 2
		}
		units = append(units, &explore.Unit{Name: p.String(), Bound: b, Opt: vrt.Options{MaxSteps: 60000},
			Body: batchBody(p, out), Check: c12Check(p, out), Sig: batchSig(out)})
	}
	// cancellation / Close at every scheduling step of the batch (see batchStepUnits)
	return append(units, batchStepUnits(thorough, c12Check)...)
}

func init() {
	register(&Prop{
		ID: "C12", Level: "model_checking",
		Technique: "stateless model checking of SendBatch with the simulated cluster's executor as observer: invalid batches at every position, every per-call outcome script x events x positions x schedules; attempts, execution counts and per-region order judged server-side",
		Rule: "invalid batches: a call of another table / a repeated call / a non-batchable call / a scan at every position of a 3-call batch, cold and warm cache: rejected as a whole and no request reaches any server. Valid batches: the C07 configuration space (1-3 calls over 1-2 regions on 1-2 servers, all outcome sequences of bounded length, cancellation / dropped table / closed client positioned after the k-th operation). Oracle at the servers: no call executed twice (increments counted in the model table), no call re-sent after a success or a non-retryable error, nothing sent to a region that does not own the key, same-region calls of one multi-request in batch order. Non-trivial = any script or event. Additionally cancel / Close at every scheduling step of SendBatch (as C07).",
		Assumptions: []string{"tier L: the order inside one multi-request is the order in which the simulated region client is handed the calls (the real multi assembly is covered by C05/C02)"},
		Quick:       150 * time.Second, Thorough: 25 * time.Minute,
		Units: c12Units,
	})
}
