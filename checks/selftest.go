package checks

import (
	"fmt"
	"time"

	"verif/explore"
	"verif/vrt"
	"verif/vrt/vsync"
)

// SELFTEST: the engine must find a seeded lost update at one preemption and
// must not report one when the update is protected by a lock; virtual time
// must advance only at quiescence.
func init() {
	register(&Prop{ID: "SELFTEST", Level: "other", Technique: "engine self-test",
		Rule: "engine self-test", Quick: 30 * time.Second, Thorough: 30 * time.Second,
		Direct: func(c *Ctx) {
			if c.R.Shard != 0 {
				return
			}
			run := func(locked bool) (int64, int64) {
				var x, fin int
				var mu vsync.Mutex
				u := &explore.Unit{Name: fmt.Sprintf("counter-locked=%v", locked), Bound: 1}
				u.Body = func() {
					x, fin = 0, 0
					done := make(chan struct{}, 2)
					for i := 0; i < 2; i++ {
						vrt.Go(func() {
							if locked {
								mu.Lock()
							}
							vrt.Yield("load")
							v := x
							vrt.Yield("store")
							x = v + 1
							if locked {
								mu.Unlock()
							}
							vrt.Send(done, struct{}{})
						})
					}
					vrt.Recv(done)
					vrt.Recv(done)
					t0 := vrt.Now()
					vrt.Sleep(5 * time.Second)
					if vrt.Now().Sub(t0) != 5*time.Second {
						fin = -1
					} else {
						fin = x
					}
				}
				u.Check = func(res *vrt.Result) *explore.Finding {
					if fin != 2 {
						return &explore.Finding{Class: "lost-update", Msg: fmt.Sprint(fin)}
					}
					return nil
				}
				rr := explore.NewRunner("SELFTEST", 0, 1, time.Time{}, "")
				rr.Explore([]*explore.Unit{u})
				for _, e := range rr.Stats.HarnessErrors {
					c.R.Stats.HarnessErrors = append(c.R.Stats.HarnessErrors, e)
				}
				return rr.Stats.Executions, rr.Stats.ClassCounts["lost-update"]
			}
			n1, v1 := run(false)
			n2, v2 := run(true)
			if v1 == 0 {
				c.R.Stats.HarnessErrors = append(c.R.Stats.HarnessErrors, "selftest: seeded lost update not found")
			}
			if v2 != 0 {
				c.R.Stats.HarnessErrors = append(c.R.Stats.HarnessErrors, "selftest: false alarm on locked counter")
			}
			c.R.Stats.Executions = n1 + n2
			c.R.Stats.NonTrivial = n1 + n2 - 2
			c.R.Stats.Samples = append(c.R.Stats.Samples, map[string]any{"racy_executions": n1, "racy_violations": v1, "locked_executions": n2, "locked_violations": v2})
		}})
}
