package checks

import (
	"fmt"
	"time"

	"verif/explore"
	"verif/vrt"
	"verif/vrt/vsync"
)

// SELFTEST: the engine must find a seeded lost update at one preemption and
// must not report one when the update is protected by a lock; virtual time
// must advance only at quiescence.
func init() {
	register(&Prop{ID: "SELFTEST", Level: "other", Technique: "engine self-test",
		Rule: "engine self-test", Quick: 30 * time.Second, Thorough: 30 * time.Second,
		Direct: func(c *Ctx) {
			if c.R.Shard != 0 {
				return
			}
			run := func(locked bool) (int64, int64) {
				var x, fin int
				var mu vsync.Mutex
				u := &explore.Unit{Name: fmt.Sprintf("counter-locked=%v", locked), Bound: 1}
				u.Body = func() {
					x, fin = 0, 0
					done := make(chan struct{}, 2)
					for i := 0; i < 2; i++ {
						vrt.Go(func() {
							if locked {
								mu.Lock()
							}
							vrt.Yield("load")
							v := x
							vrt.Yield("store")
							x = v + 1
							if locked {
								mu.Unlock()
							}
							vrt.Send(done, struct{}{})
						})
					}
					vrt.Recv(done)
					vrt.Recv(done)
					t0 := vrt.Now()
					vrt.Sleep(5 * time.Second)
					if vrt.Now().Sub(t0) != 5*time.Second {
						fin = -1
					} else {
						fin = x
					}
				}
				u.Check = func(res *vrt.Result) *explore.Finding {
					if fin != 2 {
						return &explore.Finding{Class: "lost-update", Msg: fmt.Sprint(fin)}
					}
					return nil
				}
				rr := explore.NewRunner("SELFTEST", 0, 1, time.Time{}, "")
				rr.Explore([]*explore.Unit{u})
				for _, e := range rr.Stats.HarnessErrors {
					c.R.Stats.HarnessErrors = append(c.R.Stats.HarnessErrors, e)
				}
				return rr.Stats.Executions, rr.Stats.ClassCounts["lost-update"]
			}
			n1, v1 := run(false)
			n2, v2 := run(true)
			if v1 == 0 {
				c.R.Stats.HarnessErrors = append(c.R.Stats.HarnessErrors, "selftest: seeded lost update not found")
			}
			if v2 != 0 {
				c.R.Stats.HarnessErrors = append(c.R.Stats.HarnessErrors, "selftest: false alarm on locked counter")
			}
			// GoInterrupt: an interrupt at step k. A worker checks a flag, then acts; the
			// interrupter sets the flag and expects no action afterwards. The window lies
			// between the worker's check and its act: with the interrupter enumerated over
			// every step it is found with NO deviation, and the interrupter must resume
			// exactly at the step asked for.
			var n3, v3, wrongStep int64
			for k := 1; k <= 12; k++ {
				k := k
				var closed, actedAfter bool
				var resumedAt int
				u := &explore.Unit{Name: fmt.Sprintf("interrupt-at-step-%d", k), Bound: 0}
				u.Body = func() {
					closed, actedAfter, resumedAt = false, false, 0
					done := make(chan struct{}, 2)
					vrt.GoNamed("worker", func() {
						for i := 0; i < 3; i++ {
							vrt.Yield("check")
							ok := !closed
							vrt.Yield("act")
							if ok && closed {
								actedAfter = true
							}
						}
						vrt.Send(done, struct{}{})
					})
					vrt.GoInterrupt("interrupter", func() bool { return vrt.Steps() >= k }, func() {
						resumedAt = vrt.Steps()
						closed = true
						vrt.Send(done, struct{}{})
					})
					vrt.Recv(done)
					vrt.Recv(done)
				}
				u.Check = func(res *vrt.Result) *explore.Finding {
					if actedAfter {
						return &explore.Finding{Class: "acted-after-close", Msg: fmt.Sprint(k)}
					}
					return nil
				}
				rr := explore.NewRunner("SELFTEST", 0, 1, time.Time{}, "")
				rr.Explore([]*explore.Unit{u})
				n3 += rr.Stats.Executions
				v3 += rr.Stats.ClassCounts["acted-after-close"]
				if k >= 3 && k <= 8 && resumedAt != k {
					wrongStep++
					c.R.Stats.HarnessErrors = append(c.R.Stats.HarnessErrors, fmt.Sprintf("k=%d resumed at %d", k, resumedAt))
				}
				c.R.Stats.HarnessErrors = append(c.R.Stats.HarnessErrors, rr.Stats.HarnessErrors...)
			}
			if v3 == 0 {
				c.R.Stats.HarnessErrors = append(c.R.Stats.HarnessErrors, "selftest: check-then-act window not found by interrupts at every step")
			}
			if wrongStep != 0 {
				c.R.Stats.HarnessErrors = append(c.R.Stats.HarnessErrors, fmt.Sprintf("selftest: the interrupt resumed at another step than asked for (%d units)", wrongStep))
			}
			c.R.Stats.Executions = n1 + n2 + n3
			c.R.Stats.NonTrivial = n1 + n2 - 2 + n3
			c.R.Stats.Samples = append(c.R.Stats.Samples, map[string]any{"racy_executions": n1, "racy_violations": v1, "locked_executions": n2, "locked_violations": v2,
				"interrupt_units": 12, "interrupt_executions": n3, "interrupt_violations": v3})
		}})
}
