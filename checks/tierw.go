package checks

import (
	"context"
	"errors"
	"fmt"
	"net"
	"os"
	"strings"
	"time"

	"github.com/tsuna/gohbase"
	"github.com/tsuna/gohbase/hrpc"

	"verif/explore"
	"verif/sim"
	"verif/vrt"
	"verif/vrt/vcontext"
)

// ---------------------------------------------------------------------------
// Tier W: everything real - the top-level client, real region clients, virtual
// sockets - against the simulated cluster speaking the wire protocol.

func newWorldW(cl *sim.Cluster, opts ...gohbase.Option) *world {
	w := &world{cl: cl, epoch: vrt.Now(), closedAt: -1}
	cl.Now = w.now
	dial := func(ctx context.Context, network, addr string) (net.Conn, error) {
		// the dial is initiated here (no scheduling point separates this from the region
		// client's own "already closed?" check); it completes after the yield
		if w.closedAt >= 0 && w.quiet {
			w.lateWork = append(w.lateWork, "dial "+addr)
		}
		if w.dialStarts == nil {
			w.dialStarts = map[string]int{}
		}
		w.dialStarts[addr]++
		vrt.Yield("dial")
		if err := ctx.Err(); err != nil {
			// like net.Dialer: a dial whose context ends before the connection is
			// there fails with the context's error
			return nil, err
		}
		wc := cl.Accept(addr, false)
		if wc == nil {
			return nil, errors.New("sim: connection refused")
		}
		return wc.Conn, nil
	}
	all := append([]gohbase.Option{gohbase.Logger(quietLogger), gohbase.RegionDialer(dial)}, opts...)
	w.client = gohbase.VNewClient(&fakeZK{w}, nil, all...)
	return w
}

func (w *world) openWConns() []string {
	var out []string
	for _, c := range w.cl.WConns {
		if !c.Conn.Closed {
			out = append(out, c.Addr)
		}
	}
	return out
}

// ---- C01 layer 2: routing observed on the wire

type c01WParams struct {
	splits []string
	k1, k2 string
	kind   string
	table2 string // table of the second request
}

func (p c01WParams) String() string {
	return fmt.Sprintf("wire|splits=%q|%s %q then %s:%q", p.splits, p.kind, p.k1, p.table2, p.k2)
}

func doOp(w *world, kind, table, key string) error {
	ctx := context.Background()
	vals := map[string]map[string][]byte{"f": {"q": []byte("v")}}
	switch kind {
	case "get":
		g, _ := hrpc.NewGetStr(ctx, table, key)
		r, err := w.client.Get(g)
		if err == nil && (len(r.Cells) != 1 || string(r.Cells[0].Value) != "v:"+key) {
			return fmt.Errorf("wrong value for %q", key)
		}
		return err
	case "put":
		p, _ := hrpc.NewPutStr(ctx, table, key, vals)
		_, err := w.client.Put(p)
		return err
	case "delete":
		p, _ := hrpc.NewDelStr(ctx, table, key, vals)
		_, err := w.client.Delete(p)
		return err
	case "append":
		p, _ := hrpc.NewAppStr(ctx, table, key, vals)
		_, err := w.client.Append(p)
		return err
	case "increment":
		p, _ := hrpc.NewIncStrSingle(ctx, table, key, "f", "q", 1)
		_, err := w.client.Increment(p)
		return err
	case "checkandput":
		p, _ := hrpc.NewPutStr(ctx, table, key, vals)
		_, err := w.client.CheckAndPut(p, "f", "q", []byte("x"))
		return err
	case "batch":
		a, _ := hrpc.NewGetStr(ctx, table, key)
		b, _ := hrpc.NewPutStr(ctx, table, key+"\x00", vals)
		c, _ := hrpc.NewGetStr(ctx, table, key)
		res, ok := w.client.SendBatch(ctx, []hrpc.Call{a, b, c})
		if !ok {
			for _, r := range res {
				if r.Error != nil {
					return r.Error
				}
			}
		}
		return nil
	}
	return errors.New("unknown kind")
}

// c01StaleParentUnits: hbase:meta still holds the (offline) row of a split parent whose
// key range has meanwhile been covered by other regions - a split followed by a merge before
// the catalog janitor has removed the parent (HBASE-20182). The parent row sorts between the
// live rows, so the client's one-row reversed lookup of a key at or above the parent's start
// key lands on it. first: the key touched first (cold cache).
func c01StaleParentUnits() []*explore.Unit {
	var units []*explore.Unit
	for vi, first := range []string{"n", "a", "r", "m", "q", "p"} {
		first := first
		two := vi >= 4 // two stale rows, [m,) and [p,), one above the other
		var errs []error
		var w *world
		u := &explore.Unit{Name: fmt.Sprintf("wire|meta holds the offline row of a split parent [m,)|two=%v|live [,r) [r,)|first key %q", two, first), Bound: 0, Opt: vrt.Options{MaxSteps: 60000}}
		u.Body = func() {
			errs = nil
			cl := sim.NewCluster("rs0:1")
			cl.AddTable("t", []string{"r"}, []string{"rs1:1", "rs2:1"})
			cl.StaleRows = append(cl.StaleRows, &sim.Region{Table: "t", Start: []byte("m"), ID: 1, Server: "rs2:1", Offline: true})
			if two {
				cl.StaleRows = append(cl.StaleRows, &sim.Region{Table: "t", Start: []byte("p"), Stop: []byte("r"), ID: 2, Server: "rs2:1", Offline: true})
			}
			w = newWorldW(cl, gohbase.FlushInterval(0), gohbase.RpcQueueSize(1))
			for _, k := range []string{first, "n", "a", "z", "m", "q"} {
				ctx, cancel := vcontext.WithTimeout(context.Background(), 10*time.Minute)
				g, _ := hrpc.NewGetStr(ctx, "t", k)
				r, err := w.client.Get(g)
				cancel()
				if err == nil && (len(r.Cells) != 1 || string(r.Cells[0].Value) != "v:"+k) {
					err = fmt.Errorf("wrong value for %q", k)
				}
				if err != nil {
					errs = append(errs, fmt.Errorf("get %q: %v", k, err))
				}
			}
			w.client.Close()
			vrt.Sleep(10 * time.Minute)
			for _, c := range cl.WConns {
				c.Server.Stop = true
			}
		}
		u.Check = func(res *vrt.Result) *explore.Finding {
			if f := baseFinding(res); f != nil {
				return f
			}
			if res.Deadlock {
				return &explore.Finding{Class: "request-blocked", Msg: fmt.Sprintf("%v", res.Blocked)}
			}
			if len(errs) > 0 {
				return &explore.Finding{Class: "key-never-resolved: hbase:meta holds the offline row of a split parent", Msg: fmt.Sprintf("%v (after 10 minutes of lookups; meta scans: %d)", errs, len(w.cl.MetaScans))}
			}
			for _, a := range w.cl.Attempts {
				if a.Misrouted() {
					return &explore.Finding{Class: "request-sent-to-region-or-server-not-owning-the-key", Msg: fmt.Sprintf("%+v", a)}
				}
			}
			return nil
		}
		units = append(units, u)
	}
	return units
}

// c01LayoutChangeUnits: table t = [,f) [f,m) [m,t) [t,) on two servers; every subset of its
// regions is in the client's cache when two neighbours merge or one region splits; then one
// key per old region (and the boundary keys) is requested, in ascending or descending order,
// and once more. Every request must succeed, and in the second round - when the cache has
// seen every new region - nothing may be sent to a region that does not own the key and
// nothing may be looked up again: a stale entry that survives next to the region that
// replaced it shows up here.
func c01LayoutChangeUnits(thorough bool) []*explore.Unit {
	var units []*explore.Unit
	warmKeys := []string{"a", "g", "n", "u"}
	keys := []string{"a", "f", "g", "m", "n", "t", "u", "j", "c"}
	for mask := 0; mask < 16; mask++ {
		for change := 0; change < 7; change++ {
			for _, desc := range []bool{false, true} {
				if !thorough && desc && change >= 3 && mask%3 != 0 {
					continue
				}
				mask, change, desc := mask, change, desc
				var errs []error
				var w *world
				var base, baseScans int
				cname := fmt.Sprintf("merge %d+%d", change, change+1)
				if change >= 3 {
					cname = fmt.Sprintf("split %d", change-3)
				}
				u := &explore.Unit{Name: fmt.Sprintf("wire|layout change|cached=%04b|%s|desc=%v", mask, cname, desc), Bound: 0, Opt: vrt.Options{MaxSteps: 80000}}
				u.Body = func() {
					errs = nil
					cl := sim.NewCluster("rs0:1")
					cl.AddTable("t", []string{"f", "m", "t"}, []string{"rs1:1", "rs2:1"})
					cl.AddTable("s", nil, []string{"rs2:1"})
					w = newWorldW(cl, gohbase.FlushInterval(0), gohbase.RpcQueueSize(1))
					get := func(table, k string) {
						ctx, cancel := vcontext.WithTimeout(context.Background(), 10*time.Minute)
						g, _ := hrpc.NewGetStr(ctx, table, k)
						_, err := w.client.Get(g)
						cancel()
						if err != nil {
							errs = append(errs, fmt.Errorf("get %s:%q: %v", table, k, err))
						}
					}
					get("s", "x") // the last region of a smaller table sits in front of t's first
					for i, k := range warmKeys {
						if mask&(1<<i) != 0 {
							get("t", k)
						}
					}
					if change < 3 {
						a, b := regionOf(cl, "t", warmKeys[change]), regionOf(cl, "t", warmKeys[change+1])
						cl.Merge(a, b, b.Server)
					} else {
						r := regionOf(cl, "t", warmKeys[change-3])
						cl.Split(r, []string{"c", "j", "p", "w"}[change-3], r.Server, otherServer(cl, r.Server))
					}
					order := append([]string{}, keys...)
					if desc {
						for i, j := 0, len(order)-1; i < j; i, j = i+1, j-1 {
							order[i], order[j] = order[j], order[i]
						}
					}
					for _, k := range order {
						get("t", k)
					}
					base, baseScans = len(cl.Attempts), len(cl.MetaScans)
					for _, k := range order {
						get("t", k)
					}
					w.client.Close()
					vrt.Sleep(10 * time.Minute)
					for _, c := range cl.WConns {
						c.Server.Stop = true
					}
				}
				u.Check = func(res *vrt.Result) *explore.Finding {
					if f := baseFinding(res); f != nil {
						return f
					}
					if res.Deadlock {
						return &explore.Finding{Class: "request-blocked", Msg: fmt.Sprintf("%v", res.Blocked)}
					}
					if len(errs) > 0 {
						return &explore.Finding{Class: "request-fails-after-layout-change", Msg: fmt.Sprintf("%v", errs)}
					}
					for _, a := range w.cl.Attempts[base:] {
						if a.Misrouted() {
							return &explore.Finding{Class: "routed-to-region-not-containing-key", Msg: fmt.Sprintf("second round, every new region already seen: %+v", a)}
						}
					}
					if n := len(w.cl.MetaScans) - baseScans; n > 0 {
						return &explore.Finding{Class: "cached-key-looked-up-again", Msg: fmt.Sprintf("%d meta scans in the second round: %+v", n, w.cl.MetaScans[baseScans:])}
					}
					return nil
				}
				units = append(units, u)
			}
		}
	}
	return units
}

func c01WUnits(thorough bool) []*explore.Unit {
	units := append(cacheRegionsUnits(thorough), c01StaleParentUnits()...)
	units = append(units, c01LayoutChangeUnits(thorough)...)
	bounds := []string{"+", ",", "-", "b", "b\x00"}
	var layouts [][]string
	layouts = append(layouts, nil)
	for i := range bounds {
		layouts = append(layouts, []string{bounds[i]})
		for j := i + 1; j < len(bounds); j++ {
			layouts = append(layouts, []string{bounds[i], bounds[j]})
		}
	}
	keys := []string{"", "\x00", "+", ",", ",\x00", "-", "a", "b", "b\x00", "b\x00\x00", "c", "\xff"}
	kinds := []string{"get", "put", "delete", "append", "increment", "checkandput", "batch"}
	if !thorough {
		layouts = append(layouts[:4], layouts[9:12]...)
	}
	n := 0
	for _, sp := range layouts {
		for ki, kind := range kinds {
			for i1, k1 := range keys {
				for i2, k2 := range keys {
					n++
					_ = ki
					for _, t2 := range []string{"t", "t1"} {
						if t2 == "t1" && (i1+i2)%5 != 0 {
							continue
						}
						p := c01WParams{splits: sp, k1: k1, k2: k2, kind: kind, table2: t2}
						units = append(units, c01WUnit(p))
					}
				}
			}
		}
	}
	return units
}

func c01WUnit(p c01WParams) *explore.Unit {
	var w *world
	var e1, e2 error
	var scans1, scans2 int
	var wantScans2 int
	u := &explore.Unit{Name: p.String(), Bound: 0, Opt: vrt.Options{MaxSteps: 60000}}
	u.Body = func() {
		cl := sim.NewCluster("rs0:1")
		cl.AddTable("t", p.splits, []string{"rs1:1", "rs2:1"})
		cl.AddTable("t1", []string{"b"}, []string{"rs2:1", "rs1:1"})
		cl.AddTable("ns:t", nil, []string{"rs1:1"})
		w = newWorldW(cl, gohbase.FlushInterval(time.Millisecond))
		e1 = doOp(w, p.kind, "t", p.k1)
		scans1 = len(cl.MetaScans)
		e2 = doOp(w, p.kind, p.table2, p.k2)
		scans2 = len(cl.MetaScans) - scans1
		// a key inside an already known region needs no meta lookup; any other key needs exactly one
		known := map[*sim.Region]bool{cl.Owner("t", []byte(p.k1)): true}
		if p.kind == "batch" {
			known[cl.Owner("t", []byte(p.k1+"\x00"))] = true
		}
		need := map[*sim.Region]bool{}
		for _, k := range []string{p.k2, p.k2 + "\x00"} {
			if r := cl.Owner(p.table2, []byte(k)); !known[r] {
				need[r] = true
			}
			if p.kind != "batch" {
				break
			}
		}
		wantScans2 = len(need)
		w.client.Close()
		vrt.Sleep(10 * time.Minute)
	}
	u.Check = func(res *vrt.Result) *explore.Finding {
		if f := baseFinding(res); f != nil {
			f.Msg += "\n" + p.String()
			return f
		}
		if res.Deadlock {
			return &explore.Finding{Class: "request-blocked", Msg: fmt.Sprintf("%v\n%s", res.Blocked, p)}
		}
		cl := w.cl
		if len(cl.Errors) > 0 {
			return &explore.Finding{Class: "byte-stream-not-well-formed", Msg: fmt.Sprintf("%v\n%s", cl.Errors, p)}
		}
		if e1 != nil || e2 != nil {
			return &explore.Finding{Class: "request-failed-on-healthy-cluster", Msg: fmt.Sprintf("%v / %v\n%s", e1, e2, p)}
		}
		for _, a := range cl.Attempts {
			if a.Misrouted() {
				return &explore.Finding{Class: "request-sent-to-region-or-server-not-owning-the-key",
					Msg: fmt.Sprintf("%s %q was addressed to region %q on %s, which does not own it\n%s", a.Kind, a.Row, a.Region, a.Server, p)}
			}
		}
		for _, e := range cl.Log {
			kt := "t"
			if strings.HasPrefix(e.Region, "t1,") {
				kt = "t1"
			}
			if o := cl.Owner(kt, []byte(e.Row)); o == nil || string(o.Name()) != e.Region || o.Server != e.Server {
				return &explore.Finding{Class: "request-executed-by-wrong-region", Msg: fmt.Sprintf("%v\n%s", e, p)}
			}
		}
		// a key inside an already known region is routed from the cache (no lookup at all); a key
		// outside every known range is resolved through hbase:meta (at least one lookup per region)
		if wantScans2 == 0 && scans2 != 0 {
			return &explore.Finding{Class: "known-region-looked-up-again-in-meta", Msg: fmt.Sprintf("second request caused %d meta lookups although its region was known\n%s", scans2, p)}
		}
		if scans2 < wantScans2 {
			return &explore.Finding{Class: "unknown-key-not-resolved-through-meta", Msg: fmt.Sprintf("second request caused %d meta lookups, at least %d needed\n%s", scans2, wantScans2, p)}
		}
		if cb := clientBlocked(res); len(cb) > 0 {
			return &explore.Finding{Class: "client-thread-left-after-close", Msg: fmt.Sprintf("%v\n%s", cb, p)}
		}
		return nil
	}
	u.Sig = func() string { return fmt.Sprintf("scans=%d+%d", scans1, scans2) }
	return u
}

// ---- C20 / C19 on the wire

func c20WUnits(thorough bool) []*explore.Unit {
	units := cacheRegionsUnits(thorough)
	for _, n := range []int{2, 3} {
		n := n
		var w *world
		errs := make([]error, n)
		b := 1
		if thorough {
			b = 2
		}
		u := &explore.Unit{Name: fmt.Sprintf("wire|regions=%d|callers=%d", n, n), Bound: b, Opt: vrt.Options{MaxSteps: 80000}}
		u.Body = func() {
			cl := sim.NewCluster("rs0:1")
			cl.AddTable("t", []string{"e", "k"}[:n-1], []string{"rs1:1"})
			w = newWorldW(cl, gohbase.FlushInterval(0), gohbase.RpcQueueSize(1))
			fin := make(chan int, n)
			keys := []string{"a", "f", "m"}
			for i := 0; i < n; i++ {
				i := i
				vrt.GoNamed(fmt.Sprintf("h:caller%d", i), func() {
					errs[i] = doOp(w, "get", "t", keys[i])
					vrt.Send(fin, i)
				})
			}
			for i := 0; i < n; i++ {
				vrt.Recv(fin)
			}
			vrt.Sleep(10 * time.Minute)
			w.client.Close()
			vrt.Sleep(10 * time.Minute)
		}
		u.Check = func(res *vrt.Result) *explore.Finding {
			if f := baseFinding(res); f != nil {
				return f
			}
			if res.Deadlock {
				return &explore.Finding{Class: "caller-blocked", Msg: fmt.Sprintf("%v", res.Blocked)}
			}
			for _, e := range errs {
				if e != nil {
					return &explore.Finding{Class: "request-failed", Msg: e.Error()}
				}
			}
			if d := w.cl.Dials["rs1:1"]; d != 1 {
				return &explore.Finding{Class: "server-dialled-more-often-than-needed", Msg: fmt.Sprintf("rs1:1 dialled %d times for %d regions first used concurrently", d, n)}
			}
			if m := w.cl.MaxOpen["rs1:1"]; m > 1 {
				return &explore.Finding{Class: "two-connections-open-to-one-server", Msg: fmt.Sprintf("%d", m)}
			}
			if o := w.openWConns(); len(o) > 0 {
				return &explore.Finding{Class: "connection-left-open-after-close", Msg: fmt.Sprintf("%v", o)}
			}
			if cb := clientBlocked(res); len(cb) > 0 {
				return &explore.Finding{Class: "client-thread-left-after-close", Msg: fmt.Sprintf("%v", cb)}
			}
			return nil
		}
		units = append(units, u)
	}
	// Regions A=[,k) and B=[k,) of one server first used concurrently (two callers in A, one
	// in B) while A splits server-side at step j of the run (an interrupt, every j): a
	// caller whose lookup is answered after the split brings A's daughter into the cache
	// while A - found by the other caller before the split - is still being established.
	// The server is healthy throughout: one dial.
	mkSplit := func(step int, nsteps *int, bound int) *explore.Unit {
		var w *world
		errs := make([]error, 3)
		u := &explore.Unit{Name: fmt.Sprintf("wire|regions=2|callers=3|first region splits at step %d", step), Bound: bound, Opt: vrt.Options{MaxSteps: 80000}}
		u.Body = func() {
			cl := sim.NewCluster("rs0:1")
			cl.AddTable("t", []string{"k"}, []string{"rs1:1"})
			w = newWorldW(cl, gohbase.FlushInterval(0), gohbase.RpcQueueSize(1))
			fin := make(chan int, 4)
			late := false
			tm := vrt.AfterFunc(time.Hour, func() { late = true })
			vrt.GoInterrupt("h:split", func() bool { return late || (step >= 0 && vrt.Steps() >= step) }, func() {
				tm.Stop()
				if nsteps != nil {
					*nsteps = vrt.Steps()
				}
				vrt.HLock()
				cl.Split(regionOf(cl, "t", "a"), "e", "rs1:1", "rs1:1")
				vrt.HUnlock()
				vrt.Send(fin, -1)
			})
			for i, k := range []string{"a", "b", "m"} {
				i, k := i, k
				vrt.GoNamed(fmt.Sprintf("h:caller%d", i), func() {
					errs[i] = doOp(w, "get", "t", k)
					vrt.Send(fin, i)
				})
			}
			for i := 0; i < 4; i++ {
				vrt.Recv(fin)
			}
			vrt.Sleep(10 * time.Minute)
			w.client.Close()
			vrt.Sleep(10 * time.Minute)
		}
		u.Check = func(res *vrt.Result) *explore.Finding {
			if f := baseFinding(res); f != nil {
				return f
			}
			if res.Deadlock {
				return &explore.Finding{Class: "caller-blocked", Msg: fmt.Sprintf("%v", res.Blocked)}
			}
			for _, e := range errs {
				if e != nil {
					return &explore.Finding{Class: "request-failed", Msg: e.Error()}
				}
			}
			if d := w.dialStarts["rs1:1"]; d != 1 {
				return &explore.Finding{Class: "server-dialled-more-often-than-needed", Msg: fmt.Sprintf("rs1:1 dialled %d times although its connections never failed (a region was replaced in the cache while the shared connection was being dialled)", d)}
			}
			if m := w.cl.MaxOpen["rs1:1"]; m > 1 {
				return &explore.Finding{Class: "two-connections-open-to-one-server", Msg: fmt.Sprintf("%d", m)}
			}
			return nil
		}
		u.Sig = func() string { return fmt.Sprintf("dials=%v", w.dialStarts) }
		return u
	}
	{
		n := 0
		vrt.Tracing = true
		res, _ := explore.RunOnce(mkSplit(-1, &n, 0), nil)
		vrt.Tracing = false
		var ks []int
		for i, line := range res.Trace {
			st := res.TraceSteps[i]
			if st > n || !strings.HasSuffix(line, "@0s") {
				break
			}
			name := line[strings.IndexByte(line, ':')+1:]
			if strings.HasPrefix(name, "h:srv") || strings.HasPrefix(name, "h:split") || strings.HasPrefix(name, "main ") {
				continue
			}
			ks = append(ks, st)
		}
		for i, k := range ks {
			// (two further deviations on top of every split position do not complete within
			// the thorough budget: every eighth position gets them)
			b := 1
			if thorough && i%8 == 0 {
				b = 2
			}
			units = append(units, mkSplit(k, nil, b))
		}
		if os.Getenv("VERIF_DEBUG") != "" {
			fmt.Fprintf(os.Stderr, "c20W split: n=%d client steps=%d\n", n, len(ks))
		}
	}
	return units
}

// c09WDebugUnits: the state dump against real region clients (their own MarshalJSON reads
// the connection, the in-flight counter and the done flag): two regions on two servers,
// both known; one request per region while the first server's connections are reset after
// the k-th request reached a server, and a thread dumping the state twice.
func c09WDebugUnits(thorough bool) []*explore.Unit {
	var units []*explore.Unit
	b := 1
	if thorough {
		b = 2
	}
	for _, ev := range []string{"connreset", "split"} {
		for k := 0; k <= 1; k++ {
			ev, k := ev, k
			var errs [2]error
			var derr error
			u := &explore.Unit{Name: fmt.Sprintf("wire|event=%s@%d|with a state dump", ev, k), Bound: b, Opt: vrt.Options{MaxSteps: 80000}}
			u.Body = func() {
				errs, derr = [2]error{}, nil
				cl := stdCluster()
				w := newWorldW(cl, gohbase.FlushInterval(0), gohbase.RpcQueueSize(1))
				for _, key := range []string{"a", "x"} {
					if err := doOp(w, "get", "t", key); err != nil {
						panic("warm-up failed: " + err.Error())
					}
				}
				base := len(cl.Attempts)
				fin := make(chan int, 4)
				vrt.GoNamed("h:events", func() {
					late := false
					tm := vrt.AfterFunc(time.Hour, func() { late = true })
					vrt.Await("h:event-trigger", func() bool { return late || len(cl.Attempts)-base >= k })
					tm.Stop()
					vrt.HLock()
					r := regionOf(cl, "t", "a")
					if ev == "split" {
						cl.Split(r, "c", r.Server, r.Server)
					} else {
						cl.ResetConns(r.Server)
					}
					vrt.HUnlock()
					vrt.Send(fin, -1)
				})
				for i, key := range []string{"a", "x"} {
					i, key := i, key
					vrt.GoNamed(fmt.Sprintf("h:caller%d", i), func() {
						errs[i] = doOp(w, "get", "t", key)
						vrt.Send(fin, i)
					})
				}
				vrt.GoNamed("h:debugstate", func() {
					for i := 0; i < 2 && derr == nil; i++ {
						_, derr = gohbase.DebugState(w.client)
					}
					vrt.Send(fin, -2)
				})
				for i := 0; i < 4; i++ {
					vrt.Recv(fin)
				}
				vrt.Sleep(10 * time.Minute)
				w.client.Close()
				vrt.Sleep(10 * time.Minute)
				for _, c := range cl.WConns {
					c.Server.Stop = true
				}
			}
			u.Check = func(res *vrt.Result) *explore.Finding {
				if f := baseFinding(res); f != nil {
					return f
				}
				if res.Deadlock {
					return &explore.Finding{Class: "request-stranded-after-failures", Msg: fmt.Sprintf("%v", res.Blocked)}
				}
				for i, e := range errs {
					if e != nil {
						return &explore.Finding{Class: "request-failed-although-cluster-stable", Msg: fmt.Sprintf("caller %d: %v", i, e)}
					}
				}
				if derr != nil {
					return &explore.Finding{Class: "state-dump-failed", Msg: derr.Error()}
				}
				return nil
			}
			units = append(units, u)
		}
	}
	return units
}

// c19WUnits: Close against requests travelling over real region clients. Two families:
//
//	close@k   Close starts once k requests have reached a server (it then competes under
//	          the default schedule); requests are answered.
//	step k    Close starts at scheduling step k of the execution, for every k up to the
//	          length of the Close-free run (vrt.GoInterrupt: an interrupt, it costs no
//	          deviation), with the user requests answered or held in flight by the servers.
//	          Every schedule "Close begins anywhere + d further deviations" is covered, which
//	          includes a sender that is past its done check when Close shuts its connection
//	          (Close begins there, one deviation takes it out again before the socket closes).
func c19WUnits(thorough bool) []*explore.Unit {
	var units []*explore.Unit
	type variant struct {
		name   string
		keys   []string
		held   bool
		at     int // close@at (attempt count), -2: unused
		step   int // close at step, -1: never (probe run), -2: unused
		bound  int
		nsteps *int
	}
	mk := func(v variant) *explore.Unit {
		var w *world
		var errs [2]error
		var lateErr error
		var open, lingering []string
		u := &explore.Unit{Name: v.name, Bound: v.bound, Opt: vrt.Options{MaxSteps: 80000}}
		u.Body = func() {
			cl := stdCluster()
			if v.held {
				cl.Hold["a"], cl.Hold["x"] = true, true
			}
			w = newWorldW(cl, gohbase.FlushInterval(0), gohbase.RpcQueueSize(1))
			base := len(cl.Attempts)
			fin := make(chan int, 3)
			errs = [2]error{}
			late := false
			tm := vrt.AfterFunc(time.Hour, func() { late = true })
			spawn := vrt.GoNamed
			if v.step != -2 {
				spawn = func(name string, f func()) {
					vrt.GoInterrupt(name, func() bool { return late || (v.step >= 0 && vrt.Steps() >= v.step) }, f)
				}
			}
			spawn("h:closer", func() {
				if v.step == -2 && v.at >= 0 {
					vrt.Await("h:close-trigger", func() bool { return late || len(cl.Attempts)-base >= v.at })
				}
				tm.Stop()
				if v.nsteps != nil {
					*v.nsteps = vrt.Steps()
				}
				w.client.Close()
				w.closedAt = w.now()
				vrt.Send(fin, -1)
			})
			for i, k := range v.keys {
				i, k := i, k
				vrt.GoNamed(fmt.Sprintf("h:req%d", i), func() {
					g, _ := hrpc.NewGetStr(context.Background(), "t", k)
					_, errs[i] = w.client.Get(g)
					vrt.Send(fin, i)
				})
			}
			for i := 0; i < len(v.keys)+1; i++ {
				vrt.Recv(fin)
			}
			g, _ := hrpc.NewGetStr(context.Background(), "t", "x")
			_, lateErr = w.client.Get(g)
			w.quiet = true
			vrt.Sleep(2 * time.Hour)
			open = w.openWConns()
			lingering = nil
			for _, t := range vrt.Threads() {
				if !harnessThread(t) {
					lingering = append(lingering, t)
				}
			}
			for _, c := range cl.WConns {
				c.Server.Stop = true
			}
		}
		u.Check = func(res *vrt.Result) *explore.Finding {
			if f := baseFinding(res); f != nil {
				return f
			}
			if res.Deadlock {
				return &explore.Finding{Class: "call-blocked-after-close", Msg: fmt.Sprintf("%v", res.Blocked)}
			}
			for i, e := range errs {
				if e != nil && !closedErr(e) {
					return &explore.Finding{Class: "call-around-close-returns-other-error", Msg: fmt.Sprintf("request %d: %v (%T)", i, e, e)}
				}
			}
			if !closedErr(lateErr) {
				return &explore.Finding{Class: "call-after-close-not-refused", Msg: fmt.Sprintf("%v", lateErr)}
			}
			if len(open) > 0 {
				return &explore.Finding{Class: "connection-left-open-after-close", Msg: fmt.Sprintf("%v", open)}
			}
			if len(w.lateWork) > 0 {
				return &explore.Finding{Class: "work-started-after-close-and-return", Msg: fmt.Sprintf("%v", w.lateWork)}
			}
			if len(lingering) > 0 {
				return &explore.Finding{Class: "client-thread-left-running-after-close", Msg: fmt.Sprintf("%v", lingering)}
			}
			return nil
		}
		return u
	}
	b := 1
	if thorough {
		b = 2
	}
	both := []string{"a", "x"}
	for at := -1; at <= 5; at++ {
		units = append(units, mk(variant{name: fmt.Sprintf("wire|2 requests|close@%d", at), keys: both, at: at, step: -2, bound: b}))
	}
	type fam struct {
		label string
		keys  []string
		held  bool
	}
	fams := []fam{{"1 request", both[:1], false}, {"1 request held in flight", both[:1], true}}
	if thorough {
		fams = append(fams, fam{"2 requests", both, false}, fam{"2 requests held in flight", both, true})
	}
	for _, f := range fams {
		// the steps of the run in which Close comes only after everything has settled at
		// which a thread running client code is resumed: Close interrupts just before each
		// (interrupting before a step of a simulated server or of the harness itself is the
		// same as interrupting before the next client step)
		n := 0
		vrt.Tracing = true
		res, _ := explore.RunOnce(mk(variant{keys: f.keys, held: f.held, at: -2, step: -1, nsteps: &n}), nil)
		vrt.Tracing = false
		var ks []int
		for i, line := range res.Trace {
			st := res.TraceSteps[i]
			// the held requests are retried on a timer for as long as nobody closes the
			// client: the first round (virtual time 0) in the quick tier, the first
			// 400 client steps in the thorough one
			if st > n || (!thorough && !strings.HasSuffix(line, "@0s")) || len(ks) >= 400 {
				break
			}
			name := line[strings.IndexByte(line, ':')+1:]
			if strings.HasPrefix(name, "h:srv") || strings.HasPrefix(name, "h:closer") || strings.HasPrefix(name, "main ") {
				continue
			}
			ks = append(ks, st)
		}
		for _, k := range ks {
			// (a second deviation on top of every interrupt position does not complete within
			// the thorough budget: the thorough tier widens the positions and the requests)
			fb := 0
			if f.held || thorough {
				fb = 1
			}
			units = append(units, mk(variant{name: fmt.Sprintf("wire|%s|close at step %d of %d", f.label, k, n), keys: f.keys, held: f.held, at: -2, step: k, bound: fb}))
		}
		if os.Getenv("VERIF_DEBUG") != "" {
			fmt.Fprintf(os.Stderr, "c19W %s: n=%d client steps=%d\n", f.label, n, len(ks))
		}
	}
	return units
}

// ---- C12 on the wire: a sub-call's own context ends while the multi-response is on its way

func c12WCancelUnits() []*explore.Unit {
	var units []*explore.Unit
	for _, victim := range []string{"get", "inc"} {
		for _, posn := range []int{0, 1, 2} {
			victim, posn := victim, posn
			var w *world
			var res []hrpc.RPCResult
			keys := []string{"a0", "a1", "a2"}
			u := &explore.Unit{Name: fmt.Sprintf("wire|own context of %s@%d ends in flight", victim, posn), Bound: 1, Opt: vrt.Options{MaxSteps: 80000}}
			u.Body = func() {
				cl := c09Cluster("coloc")
				w = newWorldW(cl, gohbase.FlushInterval(time.Millisecond))
				for _, k := range []string{"a", "x"} {
					if err := doOp(w, "get", "t", k); err != nil {
						panic(err)
					}
				}
				ctx, cancel := context.WithCancel(context.Background())
				var calls []hrpc.Call
				for i, k := range keys {
					cctx := context.Background()
					if i == posn {
						cctx = ctx
					}
					if i == posn && victim == "get" {
						g, _ := hrpc.NewGetStr(cctx, "t", k)
						calls = append(calls, g)
					} else {
						inc, _ := hrpc.NewIncStrSingle(cctx, "t", k, "f", "q", 1)
						calls = append(calls, inc)
					}
				}
				cl.DelayResp["rs1:1"] = true
				base := cl.MultiSeq
				vrt.GoNamed("h:event", func() {
					vrt.Await("h:multi-executed", func() bool { return cl.MultiSeq > base })
					cancel()
					vrt.Yield("h:release")
					cl.ReleaseResponses()
				})
				res, _ = w.client.SendBatch(context.Background(), calls)
				cl.ReleaseResponses()
				w.client.Close()
				vrt.Sleep(10 * time.Minute)
				cancel()
			}
			u.Check = func(r *vrt.Result) *explore.Finding {
				if f := baseFinding(r); f != nil {
					return f
				}
				if r.Deadlock {
					return &explore.Finding{Class: "batch-blocked-forever", Msg: fmt.Sprintf("%v", r.Blocked)}
				}
				cl := w.cl
				for i, k := range keys {
					if i == posn && victim == "get" {
						continue
					}
					if n := cl.Counters["t/"+k]; n > 1 {
						return &explore.Finding{Class: "call-executed-more-than-once",
							Msg: fmt.Sprintf("increment of %q was executed %d times although its success had been received (the context of call %d ended while the response was on its way)", k, n, posn)}
					}
					if i != posn && (res[i].Error != nil || cl.Counters["t/"+k] != 1) {
						return &explore.Finding{Class: "unaffected-call-of-batch-failed", Msg: fmt.Sprintf("call %d: %v (counter %d)", i, res[i].Error, cl.Counters["t/"+k])}
					}
				}
				return nil
			}
			units = append(units, u)
		}
	}
	return units
}

// ---- C12 on the wire: per-region order inside the real multi-request

func c12WUnits(thorough bool) []*explore.Unit {
	units := c12WCancelUnits()
	pats := []string{"AB", "ABAB", "BABA", "AABB", "ABBA", "ABA"}
	if thorough {
		pats = append(pats, "ABABAB", "BBAABA", "AAAB", "BAAA")
	}
	for _, pat := range pats {
		for _, layout := range []string{"coloc", "spread"} {
			pat, layout := pat, layout
			var w *world
			var res []hrpc.RPCResult
			var ok bool
			var keys []string
			u := &explore.Unit{Name: "wire|batch " + pat + "|" + layout, Bound: 0, Opt: vrt.Options{MaxSteps: 80000}}
			u.Body = func() {
				cl := c09Cluster(layout)
				w = newWorldW(cl, gohbase.FlushInterval(time.Millisecond))
				var calls []hrpc.Call
				keys = nil
				for i, c := range []byte(pat) {
					k := fmt.Sprintf("%s%d", map[byte]string{'A': "a", 'B': "x"}[c], i)
					keys = append(keys, k)
					inc, _ := hrpc.NewIncStrSingle(context.Background(), "t", k, "f", "q", 1)
					calls = append(calls, inc)
				}
				res, ok = w.client.SendBatch(context.Background(), calls)
				w.client.Close()
				vrt.Sleep(10 * time.Minute)
			}
			u.Check = func(r *vrt.Result) *explore.Finding {
				if f := baseFinding(r); f != nil {
					return f
				}
				if r.Deadlock {
					return &explore.Finding{Class: "batch-blocked-forever", Msg: fmt.Sprintf("%v", r.Blocked)}
				}
				if !ok {
					return &explore.Finding{Class: "batch-failed-on-healthy-cluster", Msg: fmt.Sprintf("%v", res)}
				}
				cl := w.cl
				if len(cl.Errors) > 0 {
					return &explore.Finding{Class: "byte-stream-not-well-formed", Msg: fmt.Sprintf("%v", cl.Errors)}
				}
				lastIdx := map[string]int{}
				for _, e := range cl.Log {
					if e.Kind != "increment" {
						continue
					}
					idx := -1
					for i, k := range keys {
						if k == e.Row {
							idx = i
						}
					}
					key := fmt.Sprintf("%s#%d", e.Region, e.Frame)
					if idx < lastIdx[key] {
						return &explore.Finding{Class: "same-region-calls-presented-out-of-batch-order",
							Msg: fmt.Sprintf("region %s received call %d (%s) after call %d in one multi-request; batch %s", e.Region, idx, e.Row, lastIdx[key], pat)}
					}
					lastIdx[key] = idx
					if o := cl.Owner("t", []byte(e.Row)); string(o.Name()) != e.Region {
						return &explore.Finding{Class: "request-executed-by-wrong-region", Msg: fmt.Sprintf("%v", e)}
					}
				}
				for _, k := range keys {
					if cl.Counters["t/"+k] != 1 {
						return &explore.Finding{Class: "call-executed-more-than-once", Msg: fmt.Sprintf("counter of %q is %d", k, cl.Counters["t/"+k])}
					}
				}
				return nil
			}
			units = append(units, u)
		}
	}
	return units
}

// ---- CacheRegions (tier L): after the prefetch every key routes from the cache

func cacheRegionsUnits(thorough bool) []*explore.Unit {
	var units []*explore.Unit
	layouts := [][]string{nil, {"m"}, {"b", "m"}, {",", "a", "m\x00"}}
	type cfg struct {
		li         int
		sp         []string
		concurrent bool
		// what happened before the prefetch: "" nothing; stale-split / stale-merge: the client
		// had located the table's regions and the cluster then split / merged them;
		// meta-transient: hbase:meta refuses the first scans; missing: the table does not exist
		pre string
	}
	var cfgs []cfg
	for li, sp := range layouts {
		for _, concurrent := range []bool{false, true} {
			cfgs = append(cfgs, cfg{li, sp, concurrent, ""})
		}
		for _, pre := range []string{"stale-split", "stale-merge", "meta-transient", "missing"} {
			if pre == "stale-merge" && len(sp) == 0 {
				continue
			}
			cfgs = append(cfgs, cfg{li, sp, false, pre})
		}
	}
	for _, c := range cfgs {
		{
			li, sp, concurrent, pre := c.li, c.sp, c.concurrent, c.pre
			var w *world
			var errs []error
			var cacheErr error
			var scansAfter, preAttempts int
			keys := []string{"", "\x00", "+", ",", "a", "b", "c", "m", "m\x00", "z", "\xff"}
			b := 0
			if concurrent {
				b = 1
				if thorough {
					b = 2
				}
			}
			name := fmt.Sprintf("cacheregions|layout=%d|concurrent-get=%v", li, concurrent)
			if pre != "" {
				name += "|pre=" + pre
			}
			table := "t"
			if pre == "missing" {
				table = "nosuch"
			}
			u := &explore.Unit{Name: name, Bound: b, Opt: vrt.Options{MaxSteps: 80000}}
			u.Body = func() {
				cl := sim.NewCluster("rs0:1")
				cl.AddTable("t", sp, []string{"rs1:1"})
				cl.AddTable("t1", []string{"b"}, []string{"rs2:1"})
				cl.AddTable("s", nil, []string{"rs2:1"})
				// '-' sorts between ',' and '.': the rows of this table lie inside the range
				// [nosuch, nosuch.) that is scanned for the table "nosuch"
				cl.AddTable("nosuch-1", nil, []string{"rs2:1"})
				w = newWorld(cl)
				errs = nil
				switch pre {
				case "stale-split", "stale-merge":
					for _, k := range keys {
						g, _ := hrpc.NewGetStr(context.Background(), "t", k)
						if _, err := w.client.Get(g); err != nil {
							panic("warm-up failed: " + err.Error())
						}
					}
					if pre == "stale-split" {
						r := cl.Owner("t", []byte("c"))
						cl.Split(r, "c", "rs1:1", "rs1:1")
					} else {
						r1 := cl.Owner("t", []byte(""))
						r2 := cl.Owner("t", r1.Stop)
						cl.Merge(r1, r2, "rs1:1")
					}
				case "meta-transient":
					cl.Script["hbase:meta,,1"] = append(cl.Script["hbase:meta,,1"], sim.ClsCallQueue, sim.ClsNSRE)
				}
				preAttempts = len(cl.Attempts)
				fin := make(chan int, 2)
				n := 1
				if concurrent {
					n = 2
					vrt.GoNamed("h:getter", func() {
						g, _ := hrpc.NewGetStr(context.Background(), "t", "m")
						_, err := w.client.Get(g)
						if err != nil {
							errs = append(errs, err)
						}
						vrt.Send(fin, 1)
					})
				}
				vrt.GoNamed("h:prefetch", func() {
					cacheErr = w.client.CacheRegions([]byte(table))
					vrt.Send(fin, 0)
				})
				for i := 0; i < n; i++ {
					vrt.Recv(fin)
				}
				vrt.Sleep(time.Minute)
				base := len(cl.MetaScans)
				for _, k := range keys {
					g, _ := hrpc.NewGetStr(context.Background(), "t", k)
					r, err := w.client.Get(g)
					if err == nil && (len(r.Cells) != 1 || string(r.Cells[0].Value) != "v:"+k) {
						err = fmt.Errorf("wrong value for %q", k)
					}
					if err != nil {
						errs = append(errs, err)
					}
				}
				scansAfter = len(cl.MetaScans) - base
				w.client.Close()
				vrt.Sleep(10 * time.Minute)
			}
			u.Check = func(res *vrt.Result) *explore.Finding {
				if f := baseFinding(res); f != nil {
					return f
				}
				if res.Deadlock {
					return &explore.Finding{Class: "request-blocked", Msg: fmt.Sprintf("%v", res.Blocked)}
				}
				if pre == "missing" {
					if cacheErr != gohbase.TableNotFound {
						return &explore.Finding{Class: "unknown-table-not-reported", Msg: fmt.Sprintf("CacheRegions of a missing table returned %v", cacheErr)}
					}
					if len(errs) > 0 {
						return &explore.Finding{Class: "request-failed-on-healthy-cluster", Msg: fmt.Sprintf("%v", errs)}
					}
					return nil
				}
				if cacheErr != nil {
					return &explore.Finding{Class: "cacheregions-failed", Msg: cacheErr.Error()}
				}
				if len(errs) > 0 {
					return &explore.Finding{Class: "request-failed-on-healthy-cluster", Msg: fmt.Sprintf("%v", errs)}
				}
				// (the regions located before a split / merge are stale by construction: only what
				// is sent after the prefetch is judged - the prefetch must have replaced them)
				for _, a := range w.cl.Attempts[preAttempts:] {
					if pre == "meta-transient" && strings.HasPrefix(a.Region, "hbase:meta") {
						continue // the scripted refusals of hbase:meta itself
					}
					if a.Misrouted() {
						return &explore.Finding{Class: "request-sent-to-region-or-server-not-owning-the-key", Msg: fmt.Sprintf("%+v", a)}
					}
				}
				if scansAfter != 0 {
					return &explore.Finding{Class: "known-region-looked-up-again-in-meta", Msg: fmt.Sprintf("%d meta lookups after the whole table had been prefetched", scansAfter)}
				}
				if d := w.cl.Dials["rs1:1"]; d != 1 {
					return &explore.Finding{Class: "server-dialled-more-often-than-needed", Msg: fmt.Sprintf("rs1:1 dialled %d times for %d prefetched regions", d, len(sp)+1)}
				}
				if m := w.cl.MaxOpen["rs1:1"]; m > 1 {
					return &explore.Finding{Class: "two-connections-open-to-one-server", Msg: fmt.Sprint(m)}
				}
				if cb := clientBlocked(res); len(cb) > 0 {
					return &explore.Finding{Class: "client-thread-left-after-close", Msg: fmt.Sprintf("%v", cb)}
				}
				return nil
			}
			units = append(units, u)
		}
	}
	return units
}
