package checks

import (
	"context"
	"fmt"
	"log/slog"
	"net"
	"strings"
	"time"

	"github.com/tsuna/gohbase"
	"github.com/tsuna/gohbase/compression"
	"github.com/tsuna/gohbase/hrpc"
	"github.com/tsuna/gohbase/pb"
	"github.com/tsuna/gohbase/region"
	"github.com/tsuna/gohbase/zk"
	"google.golang.org/protobuf/proto"

	"verif/sim"
	"verif/vrt"
)

// ---------------------------------------------------------------------------
// Tier L: the real top-level client (rpc.go, caches.go, region/info.go,
// scanner.go) over simulated region clients that hand every call to the
// simulated cluster's executor.

type world struct {
	cl       *sim.Cluster
	client   gohbase.Client
	rcs      []*simRC
	epoch    time.Time
	closedAt time.Duration // when Client.Close() returned (-1: not closed)
	dialStarts map[string]int // tier W: dials begun, per address (completed or not)
	lateDial []string      // dials started after Close() returned and all calls returned
	quiet    bool          // set once all API calls have returned
	lateWork []string      // lookups / dials / requests started while quiet after Close
	frozen   bool          // C13: the environment answers nothing any more
	batchSeq int
	zkSilent bool // ZooKeeper never answers
}

func (w *world) now() time.Duration { return vrt.Now().Sub(w.epoch) }

type fakeZK struct{ w *world }

func (z *fakeZK) LocateResource(r zk.ResourceName) (string, error) {
	// the lookup is initiated here (no scheduling point separates this from the caller's
	// own "already closed?" check); it is answered after the yield
	if vrt.Active() && z.w.closedAt >= 0 && z.w.quiet {
		z.w.lateWork = append(z.w.lateWork, "zk lookup")
	}
	vrt.Yield("zk.Locate")
	if !vrt.Active() {
		vrt.HLock()
		defer vrt.HUnlock()
	}
	z.w.cl.ZKAttempt()
	if z.w.frozen || z.w.zkSilent {
		vrt.Await("zk.silent", func() bool { return !z.w.frozen && !z.w.zkSilent })
	}
	return z.w.cl.ZKLocate(strings.Contains(string(r), "master"))
}

// simRC is a simulated hrpc.RegionClient.
type simRC struct {
	w       *world
	addr    string
	id      int
	dialed  bool
	opened  bool
	dead    bool // failed or closed: every later call is refused
	closedN int
	pending []hrpc.Call // calls the (silent) server never answered
}

func (r *simRC) Addr() string   { return r.addr }
func (r *simRC) String() string { return fmt.Sprintf("simRC#%d{%s}", r.id, r.addr) }

func (r *simRC) Dial(ctx context.Context) error {
	vrt.Yield("rc.Dial")
	vrt.HLock()
	defer vrt.HUnlock()
	if r.dialed {
		if r.dead {
			return region.ErrClientClosed
		}
		return nil
	}
	r.dialed = true
	w := r.w
	if r.dead {
		// like the real region client, a connection object that was closed before
		// its first Dial never touches the network
		return region.ErrClientClosed
	}
	w.cl.Dialed(r.addr)
	if w.closedAt >= 0 && w.quiet {
		w.lateWork = append(w.lateWork, "dial "+r.addr)
	}
	if w.frozen {
		vrt.Await("dial.frozen", func() bool { return ctx.Err() != nil })
		r.dead = true
		return region.ErrClientClosed
	}
	if r.dead || w.cl.Down[r.addr] {
		r.dead = true
		return region.ErrClientClosed
	}
	r.opened = true
	w.cl.Opened(r.addr)
	w.cl.OnReset(r.addr, r.reset)
	return nil
}

// reset is a connection failure initiated by the environment.
func (r *simRC) reset() {
	if r.dead {
		return
	}
	r.fail()
}

func (r *simRC) fail() {
	r.dead = true
	if r.opened {
		r.opened = false
		r.w.cl.Closed(r.addr)
	}
	p := r.pending
	r.pending = nil
	for _, c := range p {
		c.ResultChan() <- hrpc.RPCResult{Error: region.ErrClientClosed}
	}
}

func (r *simRC) Close() {
	vrt.Yield("rc.Close")
	vrt.HLock()
	defer vrt.HUnlock()
	r.closedN++
	if !r.dead {
		r.fail()
	}
}

func kvToCells(kvs []sim.KV) []*pb.Cell {
	var out []*pb.Cell
	for _, kv := range kvs {
		ts := kv.TS
		ct := pb.CellType(kv.Type)
		out = append(out, &pb.Cell{Row: kv.Row, Family: kv.Family, Qualifier: kv.Qualifier, Value: kv.Value, Timestamp: &ts, CellType: &ct})
	}
	return out
}

// answer hands one call to the cluster executor.
func (r *simRC) answer(c hrpc.Call) (hrpc.RPCResult, bool) { return r.answerOpt(c, true) }

// answerOpt: failOnServerError is true for unbatched calls, whose exception
// arrives in the response header and makes the real region client fail itself.
func (r *simRC) answerOpt(c hrpc.Call, failOnServerError bool) (hrpc.RPCResult, bool) {
	w := r.w
	if w.closedAt >= 0 && w.quiet {
		w.lateWork = append(w.lateWork, fmt.Sprintf("request %s to %s", c.Name(), r.addr))
	}
	if w.frozen {
		return hrpc.RPCResult{}, false
	}
	var res sim.OpResult
	var msg proto.Message
	switch x := c.(type) {
	case *hrpc.Scan:
		req := x.ToProto().(*pb.ScanRequest)
		if string(req.GetRegion().GetValue()) == "hbase:meta,,1" && !req.GetScan().GetReversed() {
			// the forward scan of CacheRegions: all meta rows of the table at once
			var rs []*sim.Region
			res, rs = w.cl.ExecMetaScanAll(r.addr, req.GetScan().GetStartRow(), req.GetScan().GetStopRow())
			sr := &pb.ScanResponse{MoreResults: proto.Bool(false), MoreResultsInRegion: proto.Bool(false)}
			for _, g := range rs {
				sr.Results = append(sr.Results, &pb.Result{Cell: kvToCells(sim.MetaCells(g))})
			}
			msg = sr
		} else if string(req.GetRegion().GetValue()) == "hbase:meta,,1" {
			var found *sim.Region
			res, found = w.cl.ExecMetaLookup(r.addr, req.GetScan().GetStartRow(), req.GetScan().GetStopRow())
			sr := &pb.ScanResponse{MoreResults: proto.Bool(false), MoreResultsInRegion: proto.Bool(false)}
			if found != nil {
				sr.Results = []*pb.Result{{Cell: kvToCells(res.Cells)}}
			}
			msg = sr
		} else {
			res = w.cl.ExecOp(r.addr, req.GetRegion().GetValue(), "scan", x.StartRow(), c, 0)
			msg = &pb.ScanResponse{MoreResults: proto.Bool(false), MoreResultsInRegion: proto.Bool(false)}
		}
	case *hrpc.Get:
		req := x.ToProto().(*pb.GetRequest)
		kind := "get"
		if req.GetGet().GetExistenceOnly() {
			kind = "exists"
		}
		res = w.cl.ExecOp(r.addr, req.GetRegion().GetValue(), kind, req.GetGet().GetRow(), c, 0)
		if kind == "exists" {
			msg = &pb.GetResponse{Result: &pb.Result{Exists: proto.Bool(false)}}
		} else {
			msg = &pb.GetResponse{Result: &pb.Result{Cell: kvToCells(res.Cells)}}
		}
	case *hrpc.Mutate:
		req := x.ToProto().(*pb.MutateRequest)
		kind := strings.ToLower(req.GetMutation().GetMutateType().String())
		res = w.cl.ExecOp(r.addr, req.GetRegion().GetValue(), kind, req.GetMutation().GetRow(), c, 0)
		msg = &pb.MutateResponse{Processed: proto.Bool(true), Result: &pb.Result{Cell: kvToCells(res.Cells)}}
	default:
		if len(c.Table()) == 0 || c.Region() == nil || len(c.Region().Name()) == 0 {
			// an administrative call: served by the active master
			res = w.cl.ExecMaster(r.addr, c.Name(), c)
			msg = c.NewResponse()
			break
		}
		// check-and-put and friends: treat as a mutation of their key
		res = w.cl.ExecOp(r.addr, c.Region().Name(), "other", c.Key(), c, 0)
		msg = c.NewResponse()
	}
	if res.NoAnswer {
		return hrpc.RPCResult{}, false
	}
	if res.Class != "" {
		err := region.VExceptionToError(res.Class, res.Stack)
		if _, ok := err.(region.ServerError); ok && failOnServerError {
			// a server-fatal exception in the response header: the real region client fails itself
			defer r.fail()
		}
		return hrpc.RPCResult{Error: err}, true
	}
	return hrpc.RPCResult{Msg: msg}, true
}

func (r *simRC) QueueRPC(c hrpc.Call) {
	vrt.Yield("rc.QueueRPC")
	vrt.HLock()
	defer vrt.HUnlock()
	if r.dead {
		c.ResultChan() <- hrpc.RPCResult{Error: region.ErrClientClosed}
		return
	}
	if c.Context().Err() != nil {
		return // the real client drops a call whose context is done
	}
	res, ok := r.answer(c)
	if !ok {
		r.pending = append(r.pending, c)
		return
	}
	c.ResultChan() <- res
}

func (r *simRC) QueueBatch(ctx context.Context, cs []hrpc.Call) {
	vrt.Yield("rc.QueueBatch")
	vrt.HLock()
	defer vrt.HUnlock()
	if ctx.Err() != nil {
		return
	}
	if r.dead {
		for _, c := range cs {
			c.ResultChan() <- hrpc.RPCResult{Error: region.ErrClientClosed}
		}
		return
	}
	w := r.w
	w.batchSeq++
	w.cl.Tag = w.batchSeq
	defer func() { w.cl.Tag = 0 }()
	var live []hrpc.Call
	for _, c := range cs {
		if c.Context().Err() != nil {
			continue // dropped from the multi-request, as the real client does
		}
		live = append(live, c)
	}
	if len(live) == 0 {
		return
	}
	// a header-level exception answers the whole multi-request (and, if it is
	// server-fatal, kills the connection); per-action outcomes do not
	if cls, ok := w.cl.PopServerScript(r.addr); ok && !w.frozen && !w.cl.Silent[r.addr] {
		err := region.VExceptionToError(cls, "scripted server exception")
		if _, fatal := err.(region.ServerError); fatal {
			defer r.fail()
		}
		for _, c := range live {
			c.ResultChan() <- hrpc.RPCResult{Error: err}
		}
		return
	}
	w.cl.InMulti = true
	defer func() { w.cl.InMulti = false }()
	for _, c := range live {
		res, ok := r.answerOpt(c, false)
		if !ok {
			r.pending = append(r.pending, c)
			continue
		}
		c.ResultChan() <- res
	}
}

// newWorld builds a cluster and a real client wired to simulated region clients.
func newWorld(cl *sim.Cluster, opts ...gohbase.Option) *world {
	w := &world{cl: cl, epoch: vrt.Now(), closedAt: -1}
	cl.Now = w.now
	fn := func(addr string, ct region.ClientType, qs int, fi time.Duration, user string, rt time.Duration,
		codec compression.Codec, d func(ctx context.Context, network, addr string) (net.Conn, error),
		l *slog.Logger) hrpc.RegionClient {
		vrt.HLock()
		defer vrt.HUnlock()
		rc := &simRC{w: w, addr: addr, id: len(w.rcs) + 1}
		w.rcs = append(w.rcs, rc)
		return rc
	}
	all := append([]gohbase.Option{gohbase.Logger(quietLogger)}, opts...)
	w.client = gohbase.VNewClient(&fakeZK{w}, fn, all...)
	return w
}

// releaseHolds ends every hold: held requests on live connections are answered now.
func (w *world) releaseHolds() {
	w.cl.Hold = map[string]bool{}
	for _, rc := range w.rcs {
		p := rc.pending
		rc.pending = nil
		for _, c := range p {
			if rc.dead {
				c.ResultChan() <- hrpc.RPCResult{Error: region.ErrClientClosed}
				continue
			}
			res, ok := rc.answer(c)
			if !ok {
				rc.pending = append(rc.pending, c)
				continue
			}
			c.ResultChan() <- res
		}
	}
}

// newAdminWorld builds a cluster and a real admin client wired to simulated region clients.
func newAdminWorld(cl *sim.Cluster, opts ...gohbase.Option) (*world, gohbase.AdminClient) {
	w := &world{cl: cl, epoch: vrt.Now(), closedAt: -1}
	cl.Now = w.now
	fn := func(addr string, ct region.ClientType, qs int, fi time.Duration, user string, rt time.Duration,
		codec compression.Codec, d func(ctx context.Context, network, addr string) (net.Conn, error),
		l *slog.Logger) hrpc.RegionClient {
		vrt.HLock()
		defer vrt.HUnlock()
		rc := &simRC{w: w, addr: addr, id: len(w.rcs) + 1}
		w.rcs = append(w.rcs, rc)
		return rc
	}
	all := append([]gohbase.Option{gohbase.Logger(quietLogger)}, opts...)
	return w, gohbase.VNewAdminClient(&fakeZK{w}, fn, all...)
}

// openConns lists simulated region clients that were opened and never closed.
func (w *world) openConns() []string {
	var out []string
	for _, rc := range w.rcs {
		if rc.opened && !rc.dead {
			out = append(out, rc.String())
		}
	}
	return out
}

// stdCluster: table t with regions [,"m") on rs1 and ["m",) on rs2, meta on rs0.
func stdCluster() *sim.Cluster {
	cl := sim.NewCluster("rs0:1")
	cl.AddTable("t", []string{"m"}, []string{"rs1:1", "rs2:1"})
	return cl
}
