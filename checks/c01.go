package checks

import (
	"bytes"
	"fmt"
	"strings"
	"time"

	"verif/explore"

	"github.com/tsuna/gohbase"
	"github.com/tsuna/gohbase/hrpc"
	"github.com/tsuna/gohbase/region"
)

// C01 layer 1: cache lookup + search key against a brute-force containment oracle.

type lRegion struct {
	table       string
	start, stop []byte
	id          uint64
	obj         hrpc.RegionInfo
}

func (l *lRegion) contains(table string, key []byte) bool {
	return l.table == table && bytes.Compare(key, l.start) >= 0 && (len(l.stop) == 0 || bytes.Compare(key, l.stop) < 0)
}

func mkRegion(table string, start, stop []byte, id uint64) *lRegion {
	var ns []byte
	tb := []byte(table)
	if i := strings.IndexByte(table, ':'); i >= 0 {
		ns, tb = []byte(table[:i]), []byte(table[i+1:])
	}
	name := []byte(fmt.Sprintf("%s,%s,%d.%08x.", table, start, id, uint32(len(start)*131+len(stop))))
	return &lRegion{table: table, start: start, stop: stop, id: id,
		obj: region.NewInfo(id, ns, tb, name, start, stop)}
}

// layout builds the contiguous regions of table for the given sorted split points.
func layout(table string, splits [][]byte, idBase uint64) []*lRegion {
	var out []*lRegion
	prev := []byte{}
	for i, s := range splits {
		out = append(out, mkRegion(table, prev, s, idBase+uint64(i)*91)) // ids 9, 100, 191: different lengths
		prev = s
	}
	return append(out, mkRegion(table, prev, nil, idBase+uint64(len(splits))*91))
}

func c01Direct(c *Ctx) {
	r := c.R
	alpha := sigma6
	keyLen, splitLen, maxSplits := 3, 2, 3
	if c.Thorough {
		// four split points over the 5-symbol alphabet (30 candidate boundaries)
		alpha, maxSplits = sigma5, 4
	}
	keys := stringsUpTo(alpha, keyLen)
	// long keys around the search-key truncation point
	for _, n := range []int{300, 32700, 32767, 40000} {
		keys = append(keys, bytes.Repeat([]byte{'a'}, n), append(bytes.Repeat([]byte{0xff}, n), 0))
	}
	splitPts := stringsUpTo(alpha, splitLen)[1:] // non-empty, already sorted? sort below
	sortBytes(splitPts)
	others := []string{"t1", "t-", "t.", "ns:t", "s", "t,"[:1] + "0"}
	var layouts [][][]byte
	var rec func(from int, cur [][]byte)
	rec = func(from int, cur [][]byte) {
		layouts = append(layouts, append([][]byte{}, cur...))
		if len(cur) == maxSplits {
			return
		}
		for i := from; i < len(splitPts); i++ {
			rec(i+1, append(cur, splitPts[i]))
		}
	}
	rec(0, nil)
	var cases, nontriv int64
	outcomes := map[string]int64{}
	for li, sp := range layouts {
		if !r.Owns(li) {
			continue
		}
		if li%16 == 0 && r.TimeUp() {
			break
		}
		regs := layout("t", sp, 9)
		var oregs []*lRegion
		for oi, o := range others {
			if oi%2 == 0 {
				oregs = append(oregs, layout(o, nil, 7)...)
			} else {
				oregs = append(oregs, layout(o, [][]byte{[]byte(",")}, 7)...)
			}
		}
		for mask := 0; mask < 1<<len(regs); mask++ {
			for othersCached := 0; othersCached < 2; othersCached++ {
				if othersCached == 0 && mask != (1<<len(regs))-1 && mask != 0 {
					continue
				}
				vc := gohbase.VNewCache()
				var cached []*lRegion
				for i, g := range regs {
					if mask&(1<<i) != 0 {
						vc.Put(g.obj)
						cached = append(cached, g)
					}
				}
				if othersCached == 1 {
					for _, g := range oregs {
						vc.Put(g.obj)
						cached = append(cached, g)
					}
				}
				for _, table := range append([]string{"t"}, others...) {
					ks := keys
					if table != "t" {
						ks = keys[:31]
					}
					for _, k := range ks {
						var want *lRegion
						for _, g := range cached {
							if g.contains(table, k) {
								want = g
							}
						}
						var got hrpc.RegionInfo
						m := catch(func() { got = vc.Lookup([]byte(table), k) })
						cases++
						if mask != 0 {
							nontriv++
						}
						var f *explore.Finding
						switch {
						case m != "":
							f = &explore.Finding{Class: "lookup-panic", Msg: m}
						case want == nil && got != nil:
							f = &explore.Finding{Class: "routed-to-region-not-containing-key",
								Msg: fmt.Sprintf("table %q key %q: cache returned %s but no cached region of that table contains the key (must go to meta)", table, k, got)}
						case want != nil && got == nil:
							f = &explore.Finding{Class: "known-region-not-found-in-cache",
								Msg: fmt.Sprintf("table %q key %q lies in cached region %s but the cache lookup missed", table, k, want.obj)}
						case want != nil && got != want.obj:
							f = &explore.Finding{Class: "routed-to-wrong-region",
								Msg: fmt.Sprintf("table %q key %q: got %s want %s", table, k, got, want.obj)}
						}
						if want == nil {
							outcomes["miss"]++
						} else {
							outcomes["hit"]++
						}
						if f != nil {
							r.Direct("cache-routing", true, "", f, func() any {
								return map[string]any{"splits": fmt.Sprintf("%q", sp), "cached_mask": mask, "others_cached": othersCached, "table": table, "key": q(k)}
							})
						}
					}
				}
			}
		}
	}
	// table-name families: every subset of tables cached, every table looked up
	// (prefixes, suffixes, the same qualifier in two namespaces, and names that differ from a
	// namespaced one only in the byte at the separator's position: '.' sorts below ':', '_'
	// and letters above it)
	fam := []string{"t", "t1", "tt", "ns:t", "ns_t", "ns.t", "nsxt", "ns:xt", "n:t", "xt", "ns:tt", "ns:t_t", "nst:t", "ns:s", "nxt"}
	if !c.Thorough {
		fam = fam[:11]
	}
	var famRegs [][]*lRegion
	for i, tn := range fam {
		if i%2 == 0 {
			famRegs = append(famRegs, layout(tn, nil, 9))
		} else {
			famRegs = append(famRegs, layout(tn, [][]byte{[]byte("-")}, 9))
		}
	}
	fkeys := stringsUpTo(alpha, 2)
	for mask := 0; mask < 1<<len(fam); mask++ {
		if !r.Owns(mask) {
			continue
		}
		vc := gohbase.VNewCache()
		var cached []*lRegion
		for i := range fam {
			if mask&(1<<i) != 0 {
				for _, g := range famRegs[i] {
					vc.Put(g.obj)
					cached = append(cached, g)
				}
			}
		}
		for _, table := range fam {
			for _, k := range fkeys {
				var want *lRegion
				for _, g := range cached {
					if g.contains(table, k) {
						want = g
					}
				}
				var got hrpc.RegionInfo
				m := catch(func() { got = vc.Lookup([]byte(table), k) })
				cases++
				nontriv++
				var f *explore.Finding
				switch {
				case m != "":
					f = &explore.Finding{Class: "lookup-panic", Msg: m}
				case want == nil && got != nil:
					f = &explore.Finding{Class: "routed-to-region-not-containing-key",
						Msg: fmt.Sprintf("table %q key %q: cache returned %s (a region of another table or range); must go to meta", table, k, got)}
				case want != nil && got == nil:
					f = &explore.Finding{Class: "known-region-not-found-in-cache", Msg: fmt.Sprintf("table %q key %q lies in cached %s", table, k, want.obj)}
				case want != nil && got != want.obj:
					f = &explore.Finding{Class: "routed-to-wrong-region", Msg: fmt.Sprintf("table %q key %q: got %s want %s", table, k, got, want.obj)}
				}
				if want == nil {
					outcomes["family-miss"]++
				} else {
					outcomes["family-hit"]++
				}
				if f != nil {
					r.Direct("table-families", true, "", f, func() any {
						return map[string]any{"tables": fam, "cached_mask": mask, "table": table, "key": q(k)}
					})
				}
			}
		}
	}
	st := &r.Stats
	st.Executions += cases
	st.NonTrivial += nontriv
	for k, v := range outcomes {
		st.Outcomes[k] += v
	}
	st.Extra["layouts"] = int64(len(layouts))
	if r.Shard == 0 {
		st.Samples = append(st.Samples, map[string]any{"splits": fmt.Sprintf("%q", layouts[len(layouts)/2]), "keys": len(keys), "tables": append([]string{"t"}, others...)})
	}
}

func sortBytes(b [][]byte) {
	for i := 1; i < len(b); i++ {
		for j := i; j > 0 && bytes.Compare(b[j-1], b[j]) > 0; j-- {
			b[j-1], b[j] = b[j], b[j-1]
		}
	}
}

func init() {
	register(&Prop{
		ID: "C01", Level: "exploration",
		Technique: "exhaustive small-scope enumeration of (layout, cached subset, table, key) against a brute-force containment oracle, plus end-to-end routing observed by a simulated cluster under the controlled scheduler",
		Rule: "layer 1: every layout of table t with <=3 split points over all strings of length <=2 over {00,'+',',','-','a',ff} (thorough: <=4 split points over the 5-symbol alphabet), every subset of its regions cached, six neighbouring tables (prefix names, namespaced) cached or not, every key of length <=3 plus keys around the 32 KiB search-key truncation; real getRegionFromCache vs containment oracle. Non-trivial = at least one region of t cached. Table-name families include names that differ from a namespaced one only in the byte at the separator's position (ns:t / ns_t / ns.t / nsxt).",
		Assumptions: []string{"tier W also: a table of four regions with every subset cached when two neighbours merge or one region splits, then one key per old region and the boundary keys in both orders, twice: every request succeeds, the second round is neither misrouted nor looked up again", "region start keys short enough for a legal meta row (HBase MAX_ROW_LENGTH)", "layer 2 (wire) uses the simulated cluster as HBase model"},
		Quick:       60 * time.Second, Thorough: 10 * time.Minute,
		Direct: c01Direct,
		Units:  c01WUnits,
	})
}

func regionFor(table, start, stop string, id uint64) hrpc.RegionInfo {
	return mkRegion(table, []byte(start), []byte(stop), id).obj
}
