package checks

import (
	"bytes"
	"context"
	"encoding/binary"
	"errors"
	"fmt"
	"strings"
	"time"

	"github.com/tsuna/gohbase"
	"github.com/tsuna/gohbase/compression"
	"github.com/tsuna/gohbase/hrpc"
	"github.com/tsuna/gohbase/pb"
	"github.com/tsuna/gohbase/region"
	"google.golang.org/protobuf/encoding/protowire"
	"google.golang.org/protobuf/proto"

	"verif/explore"
	"verif/sim"
	"verif/vrt"
	"verif/vrt/vcontext"
)

// C11: malformed data from the network cannot crash the client.
//
// Part A (direct): the cellblock reader and the region-info parser on
// exhaustively enumerated small inputs and on the full boundary product of
// the KeyValue length fields.
// Part B (units): structurally mutated response frames delivered through the
// real reader goroutine of region.client (tier R, default schedule).

// ---------------------------------------------------------------------------
// Part A

func exactBuf(b []byte) []byte {
	// capacity == length: any read beyond the data faults instead of reading slack
	out := make([]byte, len(b))
	copy(out, b)
	return out[:len(b):len(b)]
}

func c11Direct(c *Ctx) {
	r := c.R
	if c.Filter == "" && !isolatedChild {
		// calibration of the sub-process limit: a frame whose declared count is merely large
		// (2^20 cells) must be survivable, or a crash under the limit says nothing
		if res := RunIsolated("C11", "get|cellcount=1048576|isolated", 2<<30); res != "ok" {
			isoDisabled = true // see C15: skipped and reported as not covered
		}
	}
	if isoDisabled {
		r.Stats.Extra["isolation_unavailable"] = 1
	}
	var n, nt int64
	outc := map[string]int64{}
	idx := 0
	own := func() bool { idx++; return r.Owns(idx) }
	tryCells := func(unit string, buf []byte, count int32) {
		if c.Filter != "" && c.Filter != unit {
			return
		}
		n++
		nt++
		g, _ := hrpc.NewGet(context.Background(), []byte("t"), []byte("k"))
		resp := &pb.GetResponse{Result: &pb.Result{AssociatedCellCount: proto.Int32(count)}}
		var nread uint32
		var err error
		m := catch(func() { nread, err = g.DeserializeCellBlocks(resp, exactBuf(buf)) })
		if m != "" {
			r.Direct(unit, true, "", &explore.Finding{Class: "cellblock-reader-panic", Msg: fmt.Sprintf("input % x (count %d)\n%s", buf, count, firstLines(m, 12))},
				func() any { return map[string]any{"unit": unit, "bytes": fmt.Sprintf("% x", buf), "count": count} })
			return
		}
		if err == nil && int(nread) > len(buf) {
			r.Direct(unit, true, "", &explore.Finding{Class: "cellblock-reader-claims-bytes-beyond-input", Msg: fmt.Sprintf("input % x: consumed %d of %d", buf, nread, len(buf))}, nil)
			return
		}
		if err != nil {
			outc["cells-rejected"]++
		} else {
			outc["cells-accepted"]++
		}
	}
	// A1: every byte string of length <= 3 (thorough) / <= 2 plus a 6-symbol alphabet up to length 7
	maxAll := 2
	if c.Thorough {
		maxAll = 3
	}
	all := make([]byte, 256)
	for i := range all {
		all[i] = byte(i)
	}
	for _, s := range stringsUpTo(all, maxAll) {
		if !own() {
			continue
		}
		tryCells(fmt.Sprintf("cells|raw=%x", s), s, 1)
	}
	small := []byte{0x00, 0x01, 0x0e, 0x7f, 0x80, 0xff}
	maxSmall := 6
	if c.Thorough {
		maxSmall = 8
	}
	for _, s := range stringsUpTo(small, maxSmall) {
		if len(s) <= maxAll || !own() {
			continue
		}
		if idx%4096 == 0 && r.TimeUp() {
			return
		}
		tryCells(fmt.Sprintf("cells|raw=%x", s), s, 1)
	}
	// A1b: a frame length prefix of 2^31 or more, which no HBase frame can have, fed to the
	// real receive function: refused as a connection failure. (Where int has 32 bits the
	// allocation of such a frame panics instead of failing; prefixes between 1 MiB and 2^31
	// are not generated - their allocation is inherent to the framing.)
	for _, pfx := range [][]byte{{0x80, 0, 0, 0}, {0x80, 0, 0, 1}, {0xc0, 0, 0, 0}, {0xff, 0xff, 0xff, 0xfe}, {0xff, 0xff, 0xff, 0xff}} {
		unit := fmt.Sprintf("frame|prefix=%x", pfx)
		if !own() || (c.Filter != "" && c.Filter != unit) {
			continue
		}
		n++
		nt++
		rc := region.NewClient("rs1:1", region.RegionClient, 1, time.Millisecond, "root", 30*time.Second, nil, nil, quietLogger)
		var err error
		m := catch(func() { err = region.VReceive(rc, bytes.NewReader(pfx)) })
		if m != "" {
			r.Direct(unit, true, "", &explore.Finding{Class: "frame-length-panic", Msg: fmt.Sprintf("input % x\n%s", pfx, firstLines(m, 12))},
				func() any { return map[string]any{"unit": unit, "bytes": fmt.Sprintf("% x", pfx)} })
			continue
		}
		if err == nil {
			r.Direct(unit, true, "", &explore.Finding{Class: "impossible-frame-length-accepted", Msg: fmt.Sprintf("input % x", pfx)}, nil)
			continue
		}
		outc["frame-length-refused"]++
	}
	// A1c: the cellblock decompressor on its own: every short byte string over a boundary
	// alphabet, and a valid two-block stream with every byte of its two length headers set to
	// boundary values (singly and in pairs) and every truncation. The lengths are uint32 on
	// the wire: in the GOARCH=386 pass the values above MaxInt32 turn negative as int.
	{
		codec := compression.New("snappy")
		tryDecomp := func(unit string, buf []byte) {
			if c.Filter != "" && c.Filter != unit {
				return
			}
			n++
			nt++
			var err error
			m := catch(func() { _, err = region.VDecompress(codec, exactBuf(buf)) })
			if m != "" {
				r.Direct(unit, true, "", &explore.Finding{Class: "cellblock-decompressor-panic", Msg: fmt.Sprintf("input % x\n%s", buf, firstLines(m, 12))},
					func() any { return map[string]any{"unit": unit, "bytes": fmt.Sprintf("% x", buf)} })
				return
			}
			if err != nil {
				outc["compressed-rejected"]++
			} else {
				outc["compressed-accepted"]++
			}
		}
		bnd := []byte{0x00, 0x01, 0x7f, 0x80, 0xff}
		maxLen := 7
		if c.Thorough {
			maxLen = 9
		}
		for _, s := range stringsUpTo(bnd, maxLen) {
			if !own() {
				continue
			}
			if idx%4096 == 0 && r.TimeUp() {
				return
			}
			tryDecomp(fmt.Sprintf("decompress|raw=%x", s), s)
		}
		cell := sim.AppendKV(nil, sim.KV{Row: []byte("row"), Family: []byte("cf"), Qualifier: []byte("q1"), Value: []byte("value"), TS: 42, Type: 4})
		var catc string
		var block []byte
		if catc = catch(func() { block = region.VCompress(codec, [][]byte{cell, cell}, uint32(2*len(cell))) }); catc == "" {
			stream := append(append([]byte(nil), block...), block...)
			hdr := []int{0, 1, 2, 3, 4, 5, 6, 7}
			for i := 0; i < 8; i++ {
				hdr = append(hdr, len(block)+i)
			}
			vals := []byte{0x00, 0x01, 0x7f, 0x80, 0xfe, 0xff}
			for _, p := range hdr {
				for _, v := range vals {
					if !own() {
						continue
					}
					b := append([]byte(nil), stream...)
					b[p] = v
					tryDecomp(fmt.Sprintf("decompress|valid@%d=%02x", p, v), b)
				}
			}
			for i, p := range hdr {
				for _, q := range hdr[i+1:] {
					for _, v := range vals {
						for _, w := range vals {
							if !own() {
								continue
							}
							b := append([]byte(nil), stream...)
							b[p], b[q] = v, w
							tryDecomp(fmt.Sprintf("decompress|valid@%d=%02x@%d=%02x", p, v, q, w), b)
						}
					}
				}
			}
			for cut := 0; cut < len(stream); cut++ {
				if !own() {
					continue
				}
				tryDecomp(fmt.Sprintf("decompress|valid-trunc=%d", cut), stream[:cut])
			}
		}
	}
	// A2: boundary product of the five length fields of one KeyValue, with the buffer
	// holding exactly a valid cell, one byte less, or one cell plus a second valid cell
	valid := sim.AppendKV(nil, sim.KV{Row: []byte("row"), Family: []byte("cf"), Qualifier: []byte("q1"), Value: []byte("value"), TS: 42, Type: 4})
	kvLen := binary.BigEndian.Uint32(valid[0:])
	keyLen := binary.BigEndian.Uint32(valid[4:])
	valLen := binary.BigEndian.Uint32(valid[8:])
	vals32 := func(exact uint32) []uint32 {
		return []uint32{0, 1, exact - 1, exact, exact + 1, 0x7fffffff, 0x80000000, 0xffffffff, uint32(len(valid)), uint32(len(valid)) - 4}
	}
	vals16 := []uint16{0, 1, 2, 3, 4, 0x7fff, 0xffff, uint16(len(valid))}
	vals8 := []byte{0, 1, 2, 3, 0x7f, 0xff}
	for _, a := range vals32(kvLen) {
		for _, b := range vals32(keyLen) {
			for _, cc := range vals32(valLen) {
				for _, d := range vals16 {
					for _, e := range vals8 {
						if !own() {
							continue
						}
						buf := append([]byte(nil), valid...)
						binary.BigEndian.PutUint32(buf[0:], a)
						binary.BigEndian.PutUint32(buf[4:], b)
						binary.BigEndian.PutUint32(buf[8:], cc)
						binary.BigEndian.PutUint16(buf[12:], d)
						buf[14+3] = e // family length byte when the row length is intact
						unit := fmt.Sprintf("cells|kv=%d|key=%d|val=%d|row=%d|fam=%d", a, b, cc, d, e)
						tryCells(unit, buf, 1)
						tryCells(unit+"|short", buf[:len(buf)-1], 1)
						tryCells(unit+"|two", append(append([]byte(nil), buf...), valid...), 2)
					}
				}
			}
		}
	}
	// A3: every truncation of a valid two-cell block, and a declared count above what is present
	two := append(append([]byte(nil), valid...), valid...)
	for cut := 0; cut <= len(two); cut++ {
		for _, cnt := range []int32{0, 1, 2, 3, -1} {
			if cnt == -1 {
				continue // a negative count converts to 2^32-1 cells: judged in isolation below
			}
			tryCells(fmt.Sprintf("cells|trunc=%d|count=%d", cut, cnt), two[:cut], cnt)
		}
	}
	// A4: region-info cell values
	ri, _ := proto.Marshal(&pb.RegionInfo{RegionId: proto.Uint64(5), TableName: &pb.TableName{Namespace: []byte("default"), Qualifier: []byte("t")},
		StartKey: []byte("a"), EndKey: []byte("b")})
	noTable, _ := proto.Marshal(&pb.RegionInfo{RegionId: proto.Uint64(5)})
	var infoVals [][]byte
	for _, p := range []string{"", "P", "PB", "PBU", "PBUF", "PBUG", "XBUF", "\x00", "PBUF\xff", "PBUF\x08"} {
		infoVals = append(infoVals, []byte(p))
	}
	for cut := 0; cut <= len(ri); cut++ {
		infoVals = append(infoVals, append([]byte("PBUF"), ri[:cut]...))
	}
	infoVals = append(infoVals, append([]byte("PBUF"), noTable...))
	for pos := 0; pos < len(ri); pos++ {
		for _, v := range []byte{0x00, 0x01, 0x7f, 0x80, 0xff} {
			m := append([]byte(nil), ri...)
			m[pos] = v
			infoVals = append(infoVals, append([]byte("PBUF"), m...))
		}
	}
	for i, v := range infoVals {
		unit := fmt.Sprintf("regioninfo|%d|%x", i, v)
		if c.Filter != "" && c.Filter != unit {
			continue
		}
		if !own() {
			continue
		}
		n++
		nt++
		row := &hrpc.Result{Cells: []*hrpc.Cell{
			{Row: []byte("t,a,5.x."), Family: []byte("info"), Qualifier: []byte("regioninfo"), Value: exactBuf(v)},
			{Row: []byte("t,a,5.x."), Family: []byte("info"), Qualifier: []byte("server"), Value: []byte("rs:1")},
		}}
		var err error
		m := catch(func() { _, _, err = region.ParseRegionInfo(row) })
		if m != "" {
			r.Direct(unit, true, "", &explore.Finding{Class: "regioninfo-parser-panic", Msg: fmt.Sprintf("value % x\n%s", v, firstLines(m, 10))},
				func() any { return map[string]any{"unit": unit, "value": fmt.Sprintf("% x", v)} })
			continue
		}
		if err != nil {
			outc["regioninfo-rejected"]++
		} else {
			outc["regioninfo-accepted"]++
		}
	}
	// A5: the row key of an hbase:meta row is the region's name. Every string of length <=5
	// over {'t', ',', 'a', '1', 00, ':'} as the key of a row whose region-info value is valid for
	// table t: the row is parsed, and what the parser accepts is used as the client uses a
	// looked-up region - put into a location cache that already knows a region of t, then
	// looked up. Nothing of that may panic.
	validRI, _ := proto.Marshal(&pb.RegionInfo{RegionId: proto.Uint64(9), TableName: &pb.TableName{Namespace: []byte("default"), Qualifier: []byte("t")}})
	validVal := append([]byte("PBUF"), validRI...)
	// (':' is the byte the client's own search keys end with: table,key,:)
	for _, name := range stringsUpTo([]byte{'t', ',', 'a', '1', 0, ':'}, 5) {
		unit := fmt.Sprintf("metarowkey|%q", name)
		if c.Filter != "" && c.Filter != unit {
			continue
		}
		if !own() {
			continue
		}
		n++
		nt++
		row := &hrpc.Result{Cells: []*hrpc.Cell{
			{Row: name, Family: []byte("info"), Qualifier: []byte("regioninfo"), Value: exactBuf(validVal)},
			{Row: name, Family: []byte("info"), Qualifier: []byte("server"), Value: []byte("rs:1")},
		}}
		var reg hrpc.RegionInfo
		var err error
		m := catch(func() { reg, _, err = region.ParseRegionInfo(row) })
		if m == "" && err == nil && reg != nil {
			m = catch(func() {
				vc := gohbase.VNewCache()
				vc.Put(region.NewInfo(5, nil, []byte("t"), []byte("t,a,5"), []byte("a"), nil))
				vc.Put(reg)
				vc.Lookup([]byte("t"), []byte("a"))
				vc.Lookup([]byte("t"), []byte(""))
				_ = reg.String()
			})
		}
		if m != "" {
			r.Direct(unit, true, "", &explore.Finding{Class: "meta-row-key-panic", Msg: fmt.Sprintf("an hbase:meta row with key %q and a valid region-info value\n%s", name, firstLines(m, 12))},
				func() any { return map[string]any{"unit": unit} })
			continue
		}
		if err != nil {
			outc["metarow-rejected"]++
		} else {
			outc["metarow-accepted"]++
		}
	}
	// A5b: region-info values naming a table of 1 .. 40000 bytes (CacheRegions does not compare
	// the table of a row with the one it asked for): parsed and put into a location cache
	for _, tl := range []int{1, 255, 32763, 32764, 32765, 32766, 40000} {
		unit := fmt.Sprintf("metarow-table-length|%d", tl)
		if c.Filter != "" && c.Filter != unit {
			continue
		}
		if !own() {
			continue
		}
		n++
		nt++
		tn := bytes.Repeat([]byte{'T'}, tl)
		rib, _ := proto.Marshal(&pb.RegionInfo{RegionId: proto.Uint64(9), TableName: &pb.TableName{Namespace: []byte("default"), Qualifier: tn}})
		name := append(append([]byte{}, tn...), []byte(",,9")...)
		row := &hrpc.Result{Cells: []*hrpc.Cell{
			{Row: name, Family: []byte("info"), Qualifier: []byte("regioninfo"), Value: exactBuf(append([]byte("PBUF"), rib...))},
			{Row: name, Family: []byte("info"), Qualifier: []byte("server"), Value: []byte("rs:1")},
		}}
		var reg hrpc.RegionInfo
		var err error
		m := catch(func() { reg, _, err = region.ParseRegionInfo(row) })
		if m == "" && err == nil && reg != nil {
			m = catch(func() {
				vc := gohbase.VNewCache()
				vc.Put(region.NewInfo(5, nil, []byte("t"), []byte("t,a,5"), []byte("a"), nil))
				vc.Put(reg)
				vc.Lookup(tn, []byte("a"))
			})
		}
		if m != "" {
			r.Direct(unit, true, "", &explore.Finding{Class: "meta-row-table-name-panic", Msg: fmt.Sprintf("an hbase:meta row whose region-info names a table of %d bytes\n%s", tl, firstLines(m, 12))},
				func() any { return map[string]any{"unit": unit} })
			continue
		}
		outc["metarow-table-length-ok"]++
	}
	// A6: scan responses whose results have inconsistent shapes, through the real scanner:
	// every sequence of <=3 results (0-2 cells, partial flag set or not, row a or b) as the
	// first response, then the end of the scan; partial results allowed or not. Next must
	// return rows or an error - it must not panic or loop.
	type rshape struct {
		cells   int
		partial bool
		row     string
	}
	var shapes []rshape
	for cells := 0; cells <= 2; cells++ {
		for _, pa := range []bool{false, true} {
			for _, row := range []string{"a", "b"} {
				shapes = append(shapes, rshape{cells, pa, row})
			}
		}
	}
	var seqs [][]rshape
	for _, a := range shapes {
		seqs = append(seqs, []rshape{a})
		for _, b := range shapes {
			seqs = append(seqs, []rshape{a, b})
			if c.Thorough {
				for _, d := range shapes {
					seqs = append(seqs, []rshape{a, b, d})
				}
			}
		}
	}
	// ... x the response-level fields: more_results / more_results_in_region absent, true or
	// false, scanner id present or not
	tri := []*bool{nil, proto.Bool(true), proto.Bool(false)}
	for si, seq := range seqs {
		for fl := 0; fl < 18; fl++ {
			for _, allow := range []bool{false, true} {
				if fl != 4 && len(seq) > 2 {
					continue // the flag product for sequences of <=2 results
				}
				unit := fmt.Sprintf("scanshape|%v|flags=%d|allowpartial=%v", seq, fl, allow)
				if c.Filter != "" && c.Filter != unit {
					continue
				}
				if !own() {
					continue
				}
				_ = si
				n++
				nt++
				resp := &pb.ScanResponse{MoreResults: tri[fl%3], MoreResultsInRegion: tri[(fl/3)%3]}
				if fl < 9 {
					resp.ScannerId = proto.Uint64(7)
				}
				for _, sh := range seq {
					res := &pb.Result{Partial: proto.Bool(sh.partial)}
					for i := 0; i < sh.cells; i++ {
						res.Cell = append(res.Cell, &pb.Cell{Row: []byte(sh.row), Family: []byte("f"), Qualifier: []byte{'q', byte('0' + i)}, Value: []byte("v")})
					}
					resp.Results = append(resp.Results, res)
				}
				stub := &shapeRPC{first: resp}
				opts := []func(hrpc.Call) error{}
				if allow {
					opts = append(opts, hrpc.AllowPartialResults())
				}
				sc, _ := hrpc.NewScanStr(context.Background(), "t", opts...)
				calls := 0
				m := catch(func() {
					s := gohbase.VNewScanner(stub, sc, quietLogger)
					for calls = 0; calls < 50; calls++ {
						if _, err := s.Next(); err != nil {
							break
						}
					}
					s.Close()
				})
				switch {
				case m != "":
					r.Direct(unit, true, "", &explore.Finding{Class: "scanner-panics-on-odd-result-shapes", Msg: fmt.Sprintf("first scan response with results %v (cells, partial flag, row)\n%s", seq, firstLines(m, 12))},
						func() any { return map[string]any{"unit": unit} })
				case calls >= 50:
					r.Direct(unit, true, "", &explore.Finding{Class: "scanner-does-not-end-on-odd-result-shapes", Msg: fmt.Sprintf("results %v: 50 Next calls without the end of the scan", seq)},
						func() any { return map[string]any{"unit": unit} })
				default:
					outc["scanshape-ok"]++
				}
			}
		}
	}
	st := &r.Stats
	st.Executions += n
	st.NonTrivial += nt
	for k, v := range outc {
		st.Outcomes[k] += v
	}
	if r.Shard == 0 {
		st.Samples = append(st.Samples, map[string]any{"cellblock": "00 00 00 00", "count": 1},
			map[string]any{"kv": "kvLen=exact keyLen=0xffffffff valLen=exact rowLen=3 famLen=2"},
			map[string]any{"regioninfo_value": "PBU"})
	}
}

// shapeRPC answers the first scan request with a prepared response and ends the scan on
// the next one; close requests are acknowledged.
type shapeRPC struct {
	first *pb.ScanResponse
	n     int
}

func (s *shapeRPC) SendRPC(call hrpc.Call) (proto.Message, error) {
	sc, ok := call.(*hrpc.Scan)
	if !ok {
		return nil, errors.New("not a scan")
	}
	call.SetRegion(region.NewInfo(1, nil, []byte("t"), []byte("t,,1"), nil, nil))
	req := sc.ToProto().(*pb.ScanRequest)
	if req.GetCloseScanner() && req.GetNumberOfRows() == 0 {
		return &pb.ScanResponse{ScannerId: proto.Uint64(7)}, nil
	}
	s.n++
	if s.n == 1 {
		return s.first, nil
	}
	return &pb.ScanResponse{ScannerId: proto.Uint64(7), MoreResults: proto.Bool(false), MoreResultsInRegion: proto.Bool(false)}, nil
}

func firstLines(s string, n int) string {
	l := strings.Split(s, "\n")
	var keep []string
	for _, x := range l {
		if strings.Contains(x, "runtime/") && !strings.Contains(x, "panic") {
			continue
		}
		keep = append(keep, x)
		if len(keep) >= n {
			break
		}
	}
	return strings.Join(keep, "\n")
}

// ---------------------------------------------------------------------------
// Part B: mutated frames through the real reader

// respParts is a response frame in parts so that each part can be damaged.
type respParts struct {
	hdr      *pb.ResponseHeader
	body     proto.Message
	cells    []byte
	noBody   bool
	frameLen *uint32 // override of the 4-byte prefix
	hdrLen   *uint64 // override of the header delimiter
	bodyLen  *uint64
	rawBody  []byte // replaces the marshalled body
}

func (p *respParts) bytes() []byte {
	hb, _ := proto.Marshal(p.hdr)
	var body []byte
	if p.hdrLen != nil {
		body = protowire.AppendVarint(body, *p.hdrLen)
		body = append(body, hb...)
	} else {
		body = protowire.AppendBytes(body, hb)
	}
	if !p.noBody {
		rb := p.rawBody
		if rb == nil && p.body != nil {
			rb, _ = proto.Marshal(p.body)
		}
		if p.bodyLen != nil {
			body = protowire.AppendVarint(body, *p.bodyLen)
			body = append(body, rb...)
		} else {
			body = protowire.AppendBytes(body, rb)
		}
	}
	body = append(body, p.cells...)
	out := make([]byte, 4, 4+len(body))
	fl := uint32(len(body))
	if p.frameLen != nil {
		fl = *p.frameLen
	}
	binary.BigEndian.PutUint32(out, fl)
	return append(out, body...)
}

type c11Mut struct {
	name string
	f    func(p *respParts)
	huge bool // drives an allocation from a declared count: run in an isolated sub-process
}

func u32p(v uint32) *uint32 { return &v }
func i32p(v int32) *int32   { return &v }

// c11Kinds: the outstanding call(s) and the valid response for each kind.
type c11Kind struct {
	lateCancel []int // calls whose context ends after they were queued and before the multi is flushed
	name       string
	calls      []callSpec
	cfg        rigCfg
	scan       bool
	base       func(id uint32) *respParts
	muts       func() []c11Mut
}

func kvBytes(row string, n int) []byte {
	var out []byte
	for i := 0; i < n; i++ {
		out = sim.AppendKV(out, sim.KV{Row: []byte(row), Family: []byte("f"), Qualifier: []byte{byte('a' + i)}, Value: []byte("v:" + row), TS: 7, Type: 4})
	}
	return out
}

func boundaryU32(exact uint32) []uint32 {
	return []uint32{0, 1, exact - 1, exact + 1, 1 << 20, 0x7fffffff, 0xffffffff}
}

func commonMuts() []c11Mut {
	ms := []c11Mut{
		{"callid-absent", func(p *respParts) { p.hdr.CallId = nil }, false},
		{"callid-unknown", func(p *respParts) { p.hdr.CallId = u32p(p.hdr.GetCallId() + 77) }, false},
		{"callid-zero", func(p *respParts) { p.hdr.CallId = u32p(0) }, false},
		{"exception-empty", func(p *respParts) { p.hdr.Exception = &pb.ExceptionResponse{}; p.noBody = true }, false},
		{"exception-class-only", func(p *respParts) {
			p.hdr.Exception = &pb.ExceptionResponse{ExceptionClassName: proto.String("java.io.IOException")}
			p.noBody = true
		}, false},
		{"exception-stack-only", func(p *respParts) {
			p.hdr.Exception = &pb.ExceptionResponse{StackTrace: proto.String("at x")}
			p.noBody = true
		}, false},
		{"exception-with-body", func(p *respParts) { p.hdr.Exception = sim.Exc("java.io.IOException", "boom") }, false},
		{"no-body", func(p *respParts) { p.noBody = true }, false},
		{"body-garbage", func(p *respParts) { p.rawBody = []byte{0xff, 0xff, 0xff, 0xff} }, false},
		{"body-delim-too-long", func(p *respParts) { v := uint64(1 << 20); p.bodyLen = &v }, false},
		{"hdr-delim-too-long", func(p *respParts) { v := uint64(1 << 20); p.hdrLen = &v }, false},
		{"hdr-delim-zero", func(p *respParts) { v := uint64(0); p.hdrLen = &v }, false},
		{"cells-dropped", func(p *respParts) { p.cells = nil }, false},
		{"cells-truncated", func(p *respParts) {
			if len(p.cells) > 3 {
				p.cells = p.cells[:len(p.cells)-3]
			}
		}, false},
		{"cells-extra", func(p *respParts) { p.cells = append(p.cells, 1, 2, 3) }, false},
		{"cells-garbage", func(p *respParts) {
			for i := range p.cells {
				p.cells[i] = 0xff
			}
		}, false},
		{"cells-zero-kv", func(p *respParts) {
			p.cells = []byte{0, 0, 0, 0}
			p.hdr.CellBlockMeta = &pb.CellBlockMeta{Length: u32p(4)}
		}, false},
		{"frame-short-1", func(p *respParts) { b := p.bytes(); p.frameLen = u32p(uint32(len(b) - 4 - 1)) }, false},
		{"frame-long-1", func(p *respParts) { b := p.bytes(); p.frameLen = u32p(uint32(len(b) - 4 + 1)) }, false},
		{"frame-zero", func(p *respParts) { p.frameLen = u32p(0) }, false},
		{"frame-one", func(p *respParts) { p.frameLen = u32p(1) }, false},
		{"frame-1MiB", func(p *respParts) { p.frameLen = u32p(1 << 20) }, false},
	}
	for _, v := range boundaryU32(0) {
		v := v
		ms = append(ms, c11Mut{fmt.Sprintf("cellblockmeta=%d", v), func(p *respParts) {
			if v == 1 && len(p.cells) > 0 {
				p.hdr.CellBlockMeta = &pb.CellBlockMeta{Length: u32p(uint32(len(p.cells)) - 1)}
			} else if v == 1<<20+1 {
				p.hdr.CellBlockMeta = &pb.CellBlockMeta{Length: u32p(uint32(len(p.cells)) + 1)}
			} else {
				p.hdr.CellBlockMeta = &pb.CellBlockMeta{Length: u32p(v)}
			}
		}, false})
	}
	ms = append(ms, c11Mut{"cellblockmeta=len+1", func(p *respParts) { p.hdr.CellBlockMeta = &pb.CellBlockMeta{Length: u32p(uint32(len(p.cells)) + 1)} }, false},
		c11Mut{"cellblockmeta=framesize+1", func(p *respParts) {
			b := p.bytes()
			p.hdr.CellBlockMeta = &pb.CellBlockMeta{Length: u32p(uint32(len(b)))}
		}, false},
		c11Mut{"cellblockmeta=len-1", func(p *respParts) {
			if len(p.cells) > 0 {
				p.hdr.CellBlockMeta = &pb.CellBlockMeta{Length: u32p(uint32(len(p.cells)) - 1)}
			}
		}, false})
	return ms
}

func countMuts(set func(p *respParts, v int32)) []c11Mut {
	var ms []c11Mut
	for _, v := range []int32{0, 1, 2, 3, 1 << 20, 0x7fffffff, -1} {
		v := v
		ms = append(ms, c11Mut{fmt.Sprintf("cellcount=%d", v), func(p *respParts) { set(p, v) }, v >= 1<<20 || v < 0})
	}
	return ms
}

func c11Kinds() []c11Kind {
	meta := func(cells []byte) *pb.CellBlockMeta {
		if len(cells) == 0 {
			return nil
		}
		return &pb.CellBlockMeta{Length: u32p(uint32(len(cells)))}
	}
	getK := c11Kind{name: "get", calls: []callSpec{{Kind: "get", Key: "k1", SkipBatch: true}}, cfg: rigCfg{QueueSize: 1}}
	getK.base = func(id uint32) *respParts {
		cells := kvBytes("k1", 2)
		return &respParts{hdr: &pb.ResponseHeader{CallId: u32p(id), CellBlockMeta: meta(cells)},
			body: &pb.GetResponse{Result: &pb.Result{AssociatedCellCount: i32p(2)}}, cells: cells}
	}
	getK.muts = func() []c11Mut {
		ms := commonMuts()
		ms = append(ms, countMuts(func(p *respParts, v int32) { p.body.(*pb.GetResponse).Result.AssociatedCellCount = i32p(v) })...)
		ms = append(ms, c11Mut{"result-nil", func(p *respParts) { p.body.(*pb.GetResponse).Result = nil }, false})
		return ms
	}
	mutK := c11Kind{name: "mutate", calls: []callSpec{{Kind: "put", Key: "k1", SkipBatch: true}}, cfg: rigCfg{QueueSize: 1}}
	mutK.base = func(id uint32) *respParts {
		cells := kvBytes("k1", 1)
		return &respParts{hdr: &pb.ResponseHeader{CallId: u32p(id), CellBlockMeta: meta(cells)},
			body: &pb.MutateResponse{Processed: proto.Bool(true), Result: &pb.Result{AssociatedCellCount: i32p(1)}}, cells: cells}
	}
	mutK.muts = func() []c11Mut {
		ms := commonMuts()
		ms = append(ms, countMuts(func(p *respParts, v int32) { p.body.(*pb.MutateResponse).Result.AssociatedCellCount = i32p(v) })...)
		return ms
	}
	scanK := c11Kind{name: "scan", scan: true, cfg: rigCfg{QueueSize: 1}}
	scanK.base = func(id uint32) *respParts {
		cells := append(kvBytes("r1", 2), kvBytes("r2", 1)...)
		return &respParts{hdr: &pb.ResponseHeader{CallId: u32p(id), CellBlockMeta: meta(cells)},
			body: &pb.ScanResponse{CellsPerResult: []uint32{2, 1}, PartialFlagPerResult: []bool{false, false}, ScannerId: proto.Uint64(9),
				MoreResults: proto.Bool(true), MoreResultsInRegion: proto.Bool(true)}, cells: cells}
	}
	scanK.muts = func() []c11Mut {
		ms := commonMuts()
		sr := func(p *respParts) *pb.ScanResponse { return p.body.(*pb.ScanResponse) }
		ms = append(ms,
			c11Mut{"more-cells-per-result-than-flags", func(p *respParts) { sr(p).PartialFlagPerResult = []bool{false} }, false},
			c11Mut{"no-partial-flags", func(p *respParts) { sr(p).PartialFlagPerResult = nil }, false},
			c11Mut{"more-flags-than-cells-per-result", func(p *respParts) { sr(p).CellsPerResult = []uint32{2} }, false},
			c11Mut{"no-cells-per-result", func(p *respParts) { sr(p).CellsPerResult = nil }, false},
			c11Mut{"cells-per-result-too-many", func(p *respParts) { sr(p).CellsPerResult = []uint32{2, 5} }, false},
			c11Mut{"cells-per-result-1M", func(p *respParts) { sr(p).CellsPerResult = []uint32{2, 1 << 20} }, true},
			c11Mut{"cells-per-result-huge", func(p *respParts) { sr(p).CellsPerResult = []uint32{0xffffffff, 1} }, true},
			c11Mut{"cells-per-result-zero", func(p *respParts) { sr(p).CellsPerResult = []uint32{0, 0} }, false},
		)
		return ms
	}
	multiK := c11Kind{name: "multi", calls: []callSpec{{Kind: "get", Key: "a1"}, {Kind: "get", Key: "z2"}, {Kind: "put", Key: "a2"}}, cfg: rigCfg{QueueSize: 3, Flush: 50 * time.Millisecond}}
	multiK.base = func(id uint32) *respParts {
		cells := append(kvBytes("a1", 1), kvBytes("z2", 2)...)
		return &respParts{hdr: &pb.ResponseHeader{CallId: u32p(id), CellBlockMeta: meta(cells)},
			body: &pb.MultiResponse{RegionActionResult: []*pb.RegionActionResult{
				{ResultOrException: []*pb.ResultOrException{
					{Index: u32p(1), Result: &pb.Result{AssociatedCellCount: i32p(1)}},
					{Index: u32p(3), Result: &pb.Result{}}}},
				{ResultOrException: []*pb.ResultOrException{
					{Index: u32p(2), Result: &pb.Result{AssociatedCellCount: i32p(2)}}}},
			}}, cells: cells}
	}
	multiK.muts = func() []c11Mut {
		ms := commonMuts()
		mr := func(p *respParts) *pb.MultiResponse { return p.body.(*pb.MultiResponse) }
		first := func(p *respParts) *pb.ResultOrException { return mr(p).RegionActionResult[0].ResultOrException[0] }
		for _, v := range []uint32{0, 2, 3, 4, 5, 1 << 20, 0xffffffff} {
			v := v
			ms = append(ms, c11Mut{fmt.Sprintf("index=%d", v), func(p *respParts) { first(p).Index = u32p(v) }, false})
		}
		ms = append(ms,
			c11Mut{"index-absent", func(p *respParts) { first(p).Index = nil }, false},
			c11Mut{"result-and-exception", func(p *respParts) { first(p).Exception = &pb.NameBytesPair{Name: proto.String("java.io.IOException")} }, false},
			c11Mut{"neither-result-nor-exception", func(p *respParts) { first(p).Result = nil }, false},
			c11Mut{"action-exception-without-name", func(p *respParts) { first(p).Result = nil; first(p).Exception = &pb.NameBytesPair{Value: []byte("x")} }, false},
			c11Mut{"action-exception-ok", func(p *respParts) {
				first(p).Result = nil
				first(p).Exception = &pb.NameBytesPair{Name: proto.String("java.io.IOException"), Value: []byte("x")}
				p.cells = kvBytes("z2", 2)
				p.hdr.CellBlockMeta = &pb.CellBlockMeta{Length: u32p(uint32(len(p.cells)))}
			}, false},
			c11Mut{"region-exception-without-name", func(p *respParts) {
				mr(p).RegionActionResult[1] = &pb.RegionActionResult{Exception: &pb.NameBytesPair{Value: []byte("x")}}
				p.cells = kvBytes("a1", 1)
				p.hdr.CellBlockMeta = &pb.CellBlockMeta{Length: u32p(uint32(len(p.cells)))}
			}, false},
			c11Mut{"region-exception-and-results", func(p *respParts) {
				mr(p).RegionActionResult[1].Exception = &pb.NameBytesPair{Name: proto.String("java.io.IOException")}
			}, false},
			c11Mut{"one-region-result-too-many", func(p *respParts) {
				mr(p).RegionActionResult = append(mr(p).RegionActionResult, &pb.RegionActionResult{Exception: &pb.NameBytesPair{Name: proto.String("java.io.IOException"), Value: []byte("x")}})
			}, false},
			c11Mut{"one-region-result-too-few", func(p *respParts) {
				mr(p).RegionActionResult = mr(p).RegionActionResult[:1]
				p.cells = kvBytes("a1", 1)
				p.hdr.CellBlockMeta = &pb.CellBlockMeta{Length: u32p(uint32(len(p.cells)))}
			}, false},
			c11Mut{"no-region-results", func(p *respParts) { mr(p).RegionActionResult = nil; p.cells = nil; p.hdr.CellBlockMeta = nil }, false},
			c11Mut{"duplicate-index", func(p *respParts) {
				mr(p).RegionActionResult[0].ResultOrException[1].Index = u32p(1)
			}, false},
			c11Mut{"duplicate-index-across-regions", func(p *respParts) {
				mr(p).RegionActionResult[1].ResultOrException[0].Index = u32p(3)
				mr(p).RegionActionResult[1].ResultOrException[0].Result = &pb.Result{}
				p.cells = kvBytes("a1", 1)
				p.hdr.CellBlockMeta = &pb.CellBlockMeta{Length: u32p(uint32(len(p.cells)))}
			}, false},
			c11Mut{"missing-result-for-one-action", func(p *respParts) {
				mr(p).RegionActionResult[0].ResultOrException = mr(p).RegionActionResult[0].ResultOrException[:1]
			}, false},
		)
		ms = append(ms, countMuts(func(p *respParts, v int32) { first(p).Result.AssociatedCellCount = i32p(v) })...)
		return ms
	}
	// a multi-request from which one call was dropped (its context had ended before the flush):
	// the server may nevertheless mention that index
	dropK := c11Kind{name: "multi-dropped", lateCancel: []int{0}, calls: []callSpec{{Kind: "get", Key: "a1"}, {Kind: "get", Key: "z2"}, {Kind: "put", Key: "a2"}},
		cfg: rigCfg{QueueSize: 4, Flush: 50 * time.Millisecond}}
	dropK.base = func(id uint32) *respParts {
		cells := kvBytes("z2", 2)
		return &respParts{hdr: &pb.ResponseHeader{CallId: u32p(id), CellBlockMeta: meta(cells)},
			body: &pb.MultiResponse{RegionActionResult: []*pb.RegionActionResult{
				{ResultOrException: []*pb.ResultOrException{{Index: u32p(3), Result: &pb.Result{}}}},
				{ResultOrException: []*pb.ResultOrException{{Index: u32p(2), Result: &pb.Result{AssociatedCellCount: i32p(2)}}}},
			}}, cells: cells}
	}
	dropK.muts = func() []c11Mut {
		mr := func(p *respParts) *pb.MultiResponse { return p.body.(*pb.MultiResponse) }
		return []c11Mut{
			{"result-with-cells-for-dropped-call", func(p *respParts) {
				r0 := mr(p).RegionActionResult[0]
				r0.ResultOrException = append([]*pb.ResultOrException{{Index: u32p(1), Result: &pb.Result{AssociatedCellCount: i32p(1)}}}, r0.ResultOrException...)
				p.cells = append(kvBytes("a1", 1), p.cells...)
				p.hdr.CellBlockMeta = &pb.CellBlockMeta{Length: u32p(uint32(len(p.cells)))}
			}, false},
			{"result-without-cells-for-dropped-call", func(p *respParts) {
				r0 := mr(p).RegionActionResult[0]
				r0.ResultOrException = append(r0.ResultOrException, &pb.ResultOrException{Index: u32p(1), Result: &pb.Result{}})
			}, false},
			{"exception-for-dropped-call", func(p *respParts) {
				r0 := mr(p).RegionActionResult[0]
				r0.ResultOrException = append(r0.ResultOrException, &pb.ResultOrException{Index: u32p(1),
					Exception: &pb.NameBytesPair{Name: proto.String("java.io.IOException"), Value: []byte("x")}})
			}, false},
			{"only-dropped-call-answered", func(p *respParts) {
				mr(p).RegionActionResult = []*pb.RegionActionResult{{ResultOrException: []*pb.ResultOrException{{Index: u32p(1), Result: &pb.Result{AssociatedCellCount: i32p(1)}}}}}
				p.cells = kvBytes("a1", 1)
				p.hdr.CellBlockMeta = &pb.CellBlockMeta{Length: u32p(uint32(len(p.cells)))}
			}, false},
			{"region-exception-covering-dropped-call", func(p *respParts) {
				mr(p).RegionActionResult[0] = &pb.RegionActionResult{Exception: &pb.NameBytesPair{Name: proto.String("java.io.IOException"), Value: []byte("x")}}
			}, false},
		}
	}
	return []c11Kind{getK, mutK, scanK, multiK, dropK}
}

type c11Obs struct {
	res      []hrpc.RPCResult
	got      []bool
	after    error
	afterGot bool
	closed   bool
	r        *rig
	sent     int
}

// c11Body: the outstanding call(s) are sent, the server answers the first frame
// with the given bytes; afterwards one more valid call probes the connection.
func c11Body(k c11Kind, frame func(id uint32) []byte, codec compression.Codec, out *c11Obs) func() {
	return func() {
		*out = c11Obs{}
		cfg := k.cfg
		cfg.Codec = codec
		r := newRig(cfg)
		out.r = r
		regA := region.NewInfo(1, nil, []byte("t"), []byte("t,,1"), nil, []byte("m"))
		regB := region.NewInfo(2, nil, []byte("t"), []byte("t,m,2"), []byte("m"), nil)
		var calls []hrpc.Call
		if k.scan {
			sc, _ := hrpc.NewScanRangeStr(context.Background(), "t", "", "")
			sc.SetRegion(regA)
			calls = append(calls, sc)
		}
		var cancels []context.CancelFunc
		for _, s := range k.calls {
			cl, cancel := r.mkCall(s)
			cancels = append(cancels, cancel)
			if regionOfKey(s.Key) == "A" {
				cl.SetRegion(regA)
			} else {
				cl.SetRegion(regB)
			}
			calls = append(calls, cl)
		}
		n := len(calls)
		out.res = make([]hrpc.RPCResult, n)
		out.got = make([]bool, n)
		frames := 0
		r.srv.Compressed = codec != nil
		r.srv.OnFrame = func(s *sim.Server, f *sim.Frame) {
			frames++
			if frames == 1 {
				s.Send(frame(f.Header.GetCallId()))
				return
			}
			resp, cells := answer(f)
			s.Send(sim.EncodeResponseC(f.Header.GetCallId(), resp, nil, cells, codec != nil))
		}
		if err := r.rc.Dial(context.Background()); err != nil {
			panic(err)
		}
		vrt.GoNamed("h:server", r.srv.Run)
		fin := make(chan int, n)
		for i := range calls {
			i := i
			vrt.GoNamed(fmt.Sprintf("h:caller%d", i), func() {
				r.rc.QueueRPC(calls[i])
				var sel vrt.Select
				slot := vrt.AddRecv(&sel, calls[i].ResultChan())
				vrt.AddRecv(&sel, calls[i].Context().Done())
				if sel.Wait() == 0 {
					out.res[i] = slot.V
					out.got[i] = true
				}
				vrt.Send(fin, i)
			})
		}
		if len(k.lateCancel) > 0 {
			vrt.GoNamed("h:canceller", func() {
				vrt.Sleep(10 * time.Millisecond)
				for _, i := range k.lateCancel {
					cancels[i]()
				}
			})
		}
		for i := 0; i < n; i++ {
			vrt.Recv(fin)
		}
		vrt.Sleep(time.Second)
		out.closed = r.conn.Closed
		// whatever happened, the client must still behave: a new call is either served or refused
		g, _ := r.mkCall(callSpec{Kind: "get", Key: "after", SkipBatch: true})
		g.SetRegion(regA)
		r.rc.QueueRPC(g)
		res := vrt.Recv(g.ResultChan())
		out.after, out.afterGot = res.Error, true
		r.rc.Close()
		vrt.Sleep(time.Minute)
		r.srv.Stop = true
	}
}

func c11Check(name string, valid bool, out *c11Obs) func(res *vrt.Result) *explore.Finding {
	return func(res *vrt.Result) *explore.Finding {
		if f := baseFinding(res); f != nil {
			f.Msg += "\nframe: " + name
			return f
		}
		if res.Deadlock {
			return &explore.Finding{Class: "malformed-frame-strands-caller-or-blocks-reader", Msg: fmt.Sprintf("frame %s: at quiescence blocked=%v", name, res.Blocked)}
		}
		if out.afterGot && out.after != nil && errClass(out.after) != "ServerError" {
			return &explore.Finding{Class: "connection-left-in-odd-state", Msg: fmt.Sprintf("frame %s: later call failed with %v", name, out.after)}
		}
		if valid {
			for i, rr := range out.res {
				if rr.Error != nil {
					return &explore.Finding{Class: "valid-frame-rejected", Msg: fmt.Sprintf("frame %s: call %d: %v", name, i, rr.Error)}
				}
			}
		}
		if cb := clientBlocked(res); len(cb) > 0 {
			return &explore.Finding{Class: "client-thread-left-blocked", Msg: fmt.Sprintf("frame %s: %v", name, cb)}
		}
		return nil
	}
}

// c11APIUnits (tier W): structurally valid answers with odd contents, all the way up through
// the public API: the cells returned for an increment / append / get (0-2 cells, value
// lengths around the 8 bytes an increment carries), a mutate response without the
// "processed" flag or without a result, a get response without a result. The call must
// return a value or an error; nothing may panic and nothing may be left running.
func c11APIUnits(thorough bool) []*explore.Unit {
	var units []*explore.Unit
	type variant struct {
		name string
		hook func(kind string, row []byte, resp proto.Message, cells []sim.KV) (proto.Message, []sim.KV)
	}
	var vs []variant
	for _, ncells := range []int{0, 1, 2} {
		for _, vlen := range []int{0, 1, 7, 8, 9} {
			if ncells == 0 && vlen > 0 {
				continue
			}
			ncells, vlen := ncells, vlen
			vs = append(vs, variant{fmt.Sprintf("cells=%d|valuelen=%d", ncells, vlen), func(kind string, row []byte, resp proto.Message, cells []sim.KV) (proto.Message, []sim.KV) {
				var out []sim.KV
				for i := 0; i < ncells; i++ {
					out = append(out, sim.KV{Row: row, Family: []byte("f"), Qualifier: []byte{'q', byte('0' + i)}, Value: bytes.Repeat([]byte{1}, vlen), TS: 7, Type: 4})
				}
				switch r := resp.(type) {
				case *pb.MutateResponse:
					r.Result = &pb.Result{AssociatedCellCount: proto.Int32(int32(ncells))}
				case *pb.GetResponse:
					r.Result = &pb.Result{AssociatedCellCount: proto.Int32(int32(ncells))}
				}
				return resp, out
			}})
		}
	}
	vs = append(vs,
		variant{"no-result", func(kind string, row []byte, resp proto.Message, cells []sim.KV) (proto.Message, []sim.KV) {
			switch r := resp.(type) {
			case *pb.MutateResponse:
				r.Result = nil
			case *pb.GetResponse:
				r.Result = nil
			}
			return resp, nil
		}},
		variant{"no-processed-flag", func(kind string, row []byte, resp proto.Message, cells []sim.KV) (proto.Message, []sim.KV) {
			if r, ok := resp.(*pb.MutateResponse); ok {
				r.Processed = nil
			}
			return resp, cells
		}},
		variant{"cells-in-protobuf-and-cellblock", func(kind string, row []byte, resp proto.Message, cells []sim.KV) (proto.Message, []sim.KV) {
			c := &pb.Cell{Row: row, Family: []byte("f"), Qualifier: []byte("p"), Value: []byte{1, 2, 3}}
			switch r := resp.(type) {
			case *pb.MutateResponse:
				r.Result.Cell = append(r.Result.Cell, c)
			case *pb.GetResponse:
				r.Result.Cell = append(r.Result.Cell, c)
			}
			return resp, cells
		}})
	for _, op := range []string{"increment", "append", "get", "put", "checkandput"} {
		for _, v := range vs {
			op, v := op, v
			var err error
			var returned bool
			u := &explore.Unit{Name: fmt.Sprintf("api|%s|%s", op, v.name), Bound: 0, Opt: vrt.Options{MaxSteps: 60000}}
			u.Body = func() {
				err, returned = nil, false
				cl := stdCluster()
				cl.RespHook = func(kind string, row []byte, resp proto.Message, cells []sim.KV) (proto.Message, []sim.KV) {
					if kind == "exists" {
						return resp, cells
					}
					return v.hook(kind, row, resp, cells)
				}
				w := newWorldW(cl, gohbase.FlushInterval(0), gohbase.RpcQueueSize(1))
				vals := map[string]map[string][]byte{"f": {"q": []byte("v")}}
				ctx := context.Background()
				switch op {
				case "increment":
					m, _ := hrpc.NewIncStrSingle(ctx, "t", "a", "f", "q", 1)
					_, err = w.client.Increment(m)
				case "append":
					m, _ := hrpc.NewAppStr(ctx, "t", "a", vals)
					_, err = w.client.Append(m)
				case "get":
					g, _ := hrpc.NewGetStr(ctx, "t", "a")
					_, err = w.client.Get(g)
				case "put":
					m, _ := hrpc.NewPutStr(ctx, "t", "a", vals)
					_, err = w.client.Put(m)
				case "checkandput":
					m, _ := hrpc.NewPutStr(ctx, "t", "a", vals)
					_, err = w.client.CheckAndPut(m, "f", "q", []byte("x"))
				}
				returned = true
				w.client.Close()
				vrt.Sleep(10 * time.Minute)
				for _, c := range cl.WConns {
					c.Server.Stop = true
				}
			}
			u.Check = func(res *vrt.Result) *explore.Finding {
				if f := baseFinding(res); f != nil {
					f.Msg += "\n" + u.Name
					return f
				}
				if res.Deadlock || !returned {
					return &explore.Finding{Class: "api-call-blocked-on-odd-response", Msg: fmt.Sprintf("%s: %v", u.Name, res.Blocked)}
				}
				if cb := clientBlocked(res); len(cb) > 0 {
					return &explore.Finding{Class: "client-thread-left-blocked", Msg: fmt.Sprintf("%s: %v", u.Name, cb)}
				}
				return nil
			}
			u.Sig = func() string { return errClass(err) }
			units = append(units, u)
		}
	}
	return units
}

// c11MetaAnswerUnits (tier W): the row that answers a region lookup in hbase:meta, with odd
// contents - every combination of row key {empty, ",", "t,,1", "t,m,5.x.", a 40 KiB key} for the
// first and for the other cells x region-info value {valid, offline (a split parent), valid
// for a table whose name is 32765 bytes long, garbage} x with / without a server cell (in front of or behind the region-info cell). A get
// with a deadline must return (a value, an error, or its deadline): no panic, nothing left
// running. The same rows also answer CacheRegions.
func c11MetaAnswerUnits() []*explore.Unit {
	var units []*explore.Unit
	mkInfo := func(table string, offline bool) []byte {
		ri := &pb.RegionInfo{RegionId: proto.Uint64(5), TableName: &pb.TableName{Namespace: []byte("default"), Qualifier: []byte(table)}}
		if offline {
			ri.Offline, ri.Split = proto.Bool(true), proto.Bool(true)
		}
		b, _ := proto.Marshal(ri)
		return append([]byte("PBUF"), b...)
	}
	long := strings.Repeat("T", 32765)
	infos := map[string][]byte{"valid": mkInfo("t", false), "offline": mkInfo("t", true), "long-table": mkInfo(long, false), "long-table-offline": mkInfo(long, true), "garbage": []byte("PBUF\xff\xff")}
	rows := map[string][]byte{"empty": {}, "comma": []byte(","), "first": []byte("t,,1"), "mid": []byte("t,m,5.x."), "huge": append([]byte("t,"), append(bytes.Repeat([]byte{'k'}, 40000), []byte(",5")...)...)}
	// the server location of an otherwise well-formed row: bytes that are not UTF-8, no
	// port, nothing at all (the address ends up in log lines, metric labels and the dialer)
	for _, srv := range []string{"rs1:1\xff", "\xff\xfe:1", "", ":", "rs1", "[::1%\xff]:1"} {
		srv := srv
		var returned bool
		u := &explore.Unit{Name: fmt.Sprintf("metaanswer|get|well-formed row|server=%q", srv), Bound: 0, Opt: vrt.Options{MaxSteps: 60000}}
		u.Body = func() {
			returned = false
			cl := stdCluster()
			answers := 0
			cl.MetaHook = func(start []byte, cells []sim.KV) []sim.KV {
				answers++
				if answers > 2 || len(cells) < 2 {
					return cells
				}
				out := append([]sim.KV(nil), cells...)
				for i := range out {
					if string(out[i].Qualifier) == "server" {
						out[i].Value = []byte(srv)
					}
				}
				return out
			}
			w := newWorldW(cl, gohbase.FlushInterval(0), gohbase.RpcQueueSize(1))
			ctx, cancel := vcontext.WithTimeout(context.Background(), 5*time.Minute)
			g, _ := hrpc.NewGetStr(ctx, "t", "n")
			w.client.Get(g)
			cancel()
			returned = true
			w.client.Close()
			vrt.Sleep(10 * time.Minute)
			for _, c := range cl.WConns {
				c.Server.Stop = true
			}
		}
		u.Check = func(res *vrt.Result) *explore.Finding {
			if f := baseFinding(res); f != nil {
				f.Msg += "\n" + u.Name
				return f
			}
			if res.Deadlock || !returned {
				return &explore.Finding{Class: "api-call-blocked-on-odd-meta-row", Msg: fmt.Sprintf("%s: %v", u.Name, res.Blocked)}
			}
			if cb := clientBlocked(res); len(cb) > 0 {
				return &explore.Finding{Class: "client-thread-left-blocked", Msg: fmt.Sprintf("%s: %v", u.Name, cb)}
			}
			return nil
		}
		units = append(units, u)
	}
	for _, rn1 := range []string{"empty", "comma", "first", "mid", "huge"} {
		for _, rn2 := range []string{"empty", "mid"} {
			for _, in := range []string{"valid", "offline", "long-table", "long-table-offline", "garbage"} {
				for _, withServer := range []bool{true, false} {
					for _, api := range []string{"get", "cacheregions"} {
						rn1, rn2, in, withServer, api := rn1, rn2, in, withServer, api
						var returned bool
						u := &explore.Unit{Name: fmt.Sprintf("metaanswer|%s|row1=%s|rows=%s|info=%s|server=%v", api, rn1, rn2, in, withServer), Bound: 0, Opt: vrt.Options{MaxSteps: 60000}}
						u.Body = func() {
							returned = false
							cl := stdCluster()
							answers := 0
							cl.MetaHook = func(start []byte, cells []sim.KV) []sim.KV {
								answers++
								if answers > 3 {
									return cells // the lookup gets a sane answer in the end
								}
								out := []sim.KV{{Row: rows[rn1], Family: []byte("info"), Qualifier: []byte("regioninfo"), Value: infos[in], TS: 1, Type: 4}}
								if withServer {
									out = append(out, sim.KV{Row: rows[rn2], Family: []byte("info"), Qualifier: []byte("server"), Value: []byte("rs1:1"), TS: 1, Type: 4})
									if answers%2 == 0 {
										// every second answer with the server cell in front
										out[0], out[1] = out[1], out[0]
									}
								}
								return out
							}
							w := newWorldW(cl, gohbase.FlushInterval(0), gohbase.RpcQueueSize(1))
							if api == "get" {
								ctx, cancel := vcontext.WithTimeout(context.Background(), 5*time.Minute)
								g, _ := hrpc.NewGetStr(ctx, "t", "n")
								w.client.Get(g)
								cancel()
							} else {
								vrt.GoNamed("h:closer", func() { vrt.Sleep(5 * time.Minute); w.client.Close() })
								w.client.CacheRegions([]byte("t"))
							}
							returned = true
							w.client.Close()
							vrt.Sleep(10 * time.Minute)
							for _, c := range cl.WConns {
								c.Server.Stop = true
							}
						}
						u.Check = func(res *vrt.Result) *explore.Finding {
							if f := baseFinding(res); f != nil {
								f.Msg += "\n" + u.Name
								return f
							}
							if res.Deadlock || !returned {
								return &explore.Finding{Class: "api-call-blocked-on-odd-meta-row", Msg: fmt.Sprintf("%s: %v", u.Name, res.Blocked)}
							}
							if cb := clientBlocked(res); len(cb) > 0 {
								return &explore.Finding{Class: "client-thread-left-blocked", Msg: fmt.Sprintf("%s: %v", u.Name, cb)}
							}
							return nil
						}
						units = append(units, u)
					}
				}
			}
		}
	}
	return units
}

func c11Units(thorough bool) []*explore.Unit {
	units := append(c11APIUnits(thorough), c11MetaAnswerUnits()...)
	add := func(k c11Kind, name string, frame func(id uint32) []byte, valid, huge bool, codec compression.Codec) {
		out := &c11Obs{}
		full := k.name + "|" + name
		if codec != nil {
			full += "|snappy"
		}
		u := &explore.Unit{Name: full, Bound: 0, Opt: vrt.Options{MaxSteps: 20000},
			Body: c11Body(k, frame, codec, out),
			Sig: func() string {
				var sb strings.Builder
				for i := range out.res {
					sb.WriteString(errClass(out.res[i].Error) + "/")
				}
				fmt.Fprintf(&sb, "closed=%v after=%s", out.closed, errClass(out.after))
				return sb.String()
			}}
		chk := c11Check(full, valid, out)
		if huge {
			// declared counts that drive allocations: execute in an isolated sub-process
			u.Body = func() { *out = c11Obs{} }
			u.Check = func(res *vrt.Result) *explore.Finding {
				if isolatedChild || isoDisabled {
					return nil
				}
				switch r := RunIsolated("C11", full+"|isolated", 2<<30); {
				case r == "ok":
					return nil
				case strings.HasPrefix(r, "finding"):
					return &explore.Finding{Class: "finding-in-isolation: " + firstWord(r), Msg: r}
				default:
					cl := "declared-count-drives-fatal-allocation"
					if codec != nil {
						cl = "compressed-block-length-drives-fatal-allocation"
					}
					return &explore.Finding{Class: cl, Msg: fmt.Sprintf("frame %s kills a process limited to 2 GiB of address space: %s", full, r)}
				}
			}
			units = append(units, u)
			iso := &explore.Unit{Name: full + "|isolated", Bound: 0, Opt: u.Opt, Body: c11Body(k, frame, codec, out), Check: chk, Sig: u.Sig, IsolatedOnly: true}
			isoUnits = append(isoUnits, iso)
			return
		}
		u.Check = chk
		units = append(units, u)
	}
	isoUnits = nil
	for _, k := range c11Kinds() {
		k := k
		add(k, "valid", func(id uint32) []byte { return k.base(id).bytes() }, true, false, nil)
		muts := k.muts()
		for _, m := range muts {
			m := m
			add(k, m.name, func(id uint32) []byte { p := k.base(id); m.f(p); return p.bytes() }, false, m.huge, nil)
		}
		if thorough {
			for i, m1 := range muts {
				for _, m2 := range muts[i+1:] {
					m1, m2 := m1, m2
					if strings.HasPrefix(m1.name, "frame-") || strings.HasPrefix(m2.name, "frame-") {
						continue
					}
					add(k, m1.name+"+"+m2.name, func(id uint32) []byte {
						p := k.base(id)
						m1.f(p)
						// the second mutation may not be applicable any more (it addresses a part the first removed)
						func() {
							defer func() { recover() }()
							m2.f(p)
						}()
						return p.bytes()
					}, false, m1.huge || m2.huge, nil)
				}
			}
		}
		// every truncation (the server then closes) and single-byte corruption of the valid frame
		valid := k.base(1).bytes()
		for cut := 0; cut < len(valid); cut++ {
			cut := cut
			add(k, fmt.Sprintf("trunc=%d", cut), func(id uint32) []byte { return k.base(id).bytes()[:cut] }, false, false, nil)
		}
		vals := []byte{0x00, 0x01, 0x7f, 0x80, 0xff}
		for pos := 4; pos < len(valid); pos++ { // the 4-byte frame length is covered by the frame-* mutations
			for _, v := range vals {
				pos, v := pos, v
				if valid[pos] == v {
					continue
				}
				m := append([]byte(nil), valid...)
				m[pos] = v
				add(k, fmt.Sprintf("flip@%d=%02x", pos, v), func(id uint32) []byte {
					b := k.base(id).bytes()
					b[pos] = v
					return b
				}, false, frameDeclaresHuge(m, k.name), nil)
			}
		}
		// compressed cellblocks: damage inside the compressed stream
		if k.name == "get" || k.name == "multi" {
			codec := compression.New("snappy")
			mk := func(id uint32) *respParts {
				p := k.base(id)
				p.cells = sim.BlockStreamEncode([][][]byte{{p.cells}}, sim.SnappyEncodeLiteral)
				p.hdr.CellBlockMeta = &pb.CellBlockMeta{Length: u32p(uint32(len(p.cells)))}
				return p
			}
			add(k, "compressed-valid", func(id uint32) []byte { return mk(id).bytes() }, true, false, codec)
			// the same cellblocks as several blocks / chunks (a conforming server may cut anywhere)
			for _, cuts := range [][]int{{9}, {40}, {30, 31}, {1, 2}} {
				cuts := cuts
				add(k, fmt.Sprintf("compressed-valid-blocks@%v", cuts), func(id uint32) []byte {
					p := k.base(id)
					var blocks [][][]byte
					prev := 0
					for _, c := range cuts {
						if c > len(p.cells) {
							c = len(p.cells)
						}
						blocks = append(blocks, [][]byte{p.cells[prev:c]})
						prev = c
					}
					blocks = append(blocks, [][]byte{p.cells[prev:]})
					p.cells = sim.BlockStreamEncode(blocks, sim.SnappyEncodeLiteral)
					p.hdr.CellBlockMeta = &pb.CellBlockMeta{Length: u32p(uint32(len(p.cells)))}
					return p.bytes()
				}, true, false, codec)
			}
			nc := len(mk(1).cells)
			for pos := 0; pos < nc && pos < 16; pos++ {
				for _, v := range []byte{0x00, 0x01, 0x7f, 0xff} {
					pos, v := pos, v
					add(k, fmt.Sprintf("compressed-flip@%d=%02x", pos, v), func(id uint32) []byte {
						p := mk(id)
						p.cells[pos] = v
						return p.bytes()
					}, false, pos < 12 && (v == 0x7f || v == 0xff || v == 0x01) && (pos%4 == 0 || pos == 8), codec)
				}
			}
			for cut := 0; cut < nc; cut += 3 {
				cut := cut
				add(k, fmt.Sprintf("compressed-trunc=%d", cut), func(id uint32) []byte {
					p := mk(id)
					p.cells = p.cells[:cut]
					p.hdr.CellBlockMeta = &pb.CellBlockMeta{Length: u32p(uint32(cut))}
					return p.bytes()
				}, false, false, codec)
			}
		}
	}
	return append(units, isoUnits...)
}

var isoUnits []*explore.Unit

// isoDisabled: the memory-limited sub-process cannot even run a harmless unit here.
var isoDisabled bool

// isolatedChild is set in the sub-process that executes one dangerous unit.
var isolatedChild bool

func firstWord(s string) string {
	f := strings.Fields(s)
	if len(f) > 1 {
		return strings.TrimSuffix(f[1], ":")
	}
	return s
}

// frameDeclaresHuge pre-parses a damaged frame with the protobuf library to see
// whether a count field promises more than 2^20 entries.
func frameDeclaresHuge(frame []byte, kind string) bool {
	if len(frame) < 4 {
		return false
	}
	b := frame[4:]
	hb, n := protowire.ConsumeBytes(b)
	if n < 0 {
		return false
	}
	var hdr pb.ResponseHeader
	if proto.Unmarshal(hb, &hdr) != nil {
		return false
	}
	rb, n2 := protowire.ConsumeBytes(b[n:])
	if n2 < 0 {
		return false
	}
	big := func(v int64) bool { return v > 1<<20 || v < 0 }
	switch kind {
	case "get":
		var m pb.GetResponse
		if proto.Unmarshal(rb, &m) == nil {
			return big(int64(m.GetResult().GetAssociatedCellCount()))
		}
	case "mutate":
		var m pb.MutateResponse
		if proto.Unmarshal(rb, &m) == nil {
			return big(int64(m.GetResult().GetAssociatedCellCount()))
		}
	case "scan":
		var m pb.ScanResponse
		if proto.Unmarshal(rb, &m) == nil {
			for _, c := range m.CellsPerResult {
				if c > 1<<20 {
					return true
				}
			}
			return len(m.PartialFlagPerResult) > 1<<20
		}
	case "multi":
		var m pb.MultiResponse
		if proto.Unmarshal(rb, &m) == nil {
			for _, rar := range m.RegionActionResult {
				for _, roe := range rar.ResultOrException {
					if big(int64(roe.GetResult().GetAssociatedCellCount())) {
						return true
					}
				}
			}
		}
	}
	return false
}

func init() {
	register(&Prop{
		ID: "C11", Level: "fault_enumeration",
		Technique:   "bounded exhaustive malformed-input enumeration: all short byte strings and the full boundary product of KeyValue length fields into the cellblock reader, every region-info value prefix/corruption, and structure-aware mutations / every truncation / byte flips of valid get, mutate, scan and multi response frames delivered through the real reader goroutine under the controlled scheduler",
		Rule:        "A: all byte strings of length <=2 (thorough <=3), all strings <=6 (8) over {00,01,0e,7f,80,ff}, 10x10x10x8x6 boundary values of kvLen/keyLen/valueLen/rowLen/famLen on exact, short and two-cell buffers (capacity = length), truncations x declared counts, 60+ region-info values. B: for each of 4 response kinds ~45-60 field mutations (call id, exception parts, delimiters, cell_block_meta.length, associated_cell_count, cells_per_result vs flags, multi index / duplicate / result-and-exception / region-result count / nameless exceptions, frame length) singly (thorough: in pairs), every truncation, 5 values at every byte, damaged compressed cellblocks; frames whose counts drive allocations run in a sub-process with a 2 GiB limit. Oracle: no panic in any thread, no caller or reader stranded, later calls served or refused. Non-trivial = every malformed input. Part A also: every hbase:meta row KEY of length <=5 over {t , a 1 00 :} with a valid region-info value, parsed and then used like a looked-up region (put into a cache that knows a region of the table, looked up); every sequence of <=2 (thorough 3) scan-result shapes (0-2 cells, partial flag, row a/b) as a first response through the real scanner, partial results allowed or not (no panic, the scan ends). Tier W: structurally valid answers with odd contents through the public API - increment / append / get / put / check-and-put x {0-2 cells x value lengths 0,1,7,8,9; no result; no processed flag; cells in the protobuf as well as in the cellblock}: the call returns a value or an error. Also: region-info values naming tables of 1..40000 bytes into parser and cache; tier W: the row answering a region lookup with odd contents (5 row keys for the first cell x 2 for the others x {valid, offline, huge table, huge table offline, garbage} region-info x server cell absent / behind / in front).",
		Assumptions: []string{"allocation of a frame's own declared length (the 4-byte prefix) is inherent to the framing and not judged; prefixes between 1 MiB and 2^31 are not generated", "default thread schedule for part B (schedules are C03's subject)"},
		Quick:       120 * time.Second, Thorough: 20 * time.Minute,
		Units: c11Units, Direct: c11Direct, Arch32: true,
	})
}
