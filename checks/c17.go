package checks

import (
	"context"
	"fmt"
	"strings"
	"time"

	"github.com/tsuna/gohbase"
	"github.com/tsuna/gohbase/hrpc"

	"verif/explore"
	"verif/sim"
	"verif/vrt"
	"verif/vrt/vcontext"
)

// C17: retries back off and never become a hot loop.

const c17ShortTimeout = 10 * time.Millisecond

// backoffTable is the schedule of the statement, restated literally.
func backoffTable(n int) []time.Duration {
	var t []time.Duration
	d := 16 * time.Millisecond
	for len(t) < n {
		t = append(t, d)
		switch {
		case d < 5*time.Second:
			d *= 2
		case d < 30*time.Second:
			d += 5 * time.Second
		}
	}
	return t
}

type c17Params struct {
	name    string
	entry   string // get | batch | batch2
	failure string // retry-later | conn-drop-request | region-never-online | meta-retry | meta-conn-drop | zk-error | dial-refused
	early   bool   // allow timers to fire early (a slow client): gaps may only grow
	// deadline: the caller's context ends by its own deadline (10 minutes) instead of being
	// cancelled: the waits must end there too, not degenerate into back-to-back attempts
	deadline bool
}

type c17Obs struct {
	w        *world
	returned bool
	err      error
	cancelAt time.Duration
}

func c17Body(p c17Params, out *c17Obs) func() {
	return func() {
		*out = c17Obs{}
		cl := stdCluster()
		var copts []gohbase.Option
		if strings.HasSuffix(p.failure, "-timeout") {
			// a lookup that fails by timing out: with a short lookup timeout the waits between
			// attempts are visible (attempt gap = timeout + wait)
			copts = append(copts, gohbase.RegionLookupTimeout(c17ShortTimeout))
		}
		w := newWorld(cl, copts...)
		out.w = w
		warm := func(k string) {
			g, _ := hrpc.NewGetStr(context.Background(), "t", k)
			if _, err := w.client.Get(g); err != nil {
				panic("warm-up failed: " + err.Error())
			}
		}
		many := func(cls string) []string {
			var s []string
			for i := 0; i < 200; i++ {
				s = append(s, cls)
			}
			return s
		}
		switch p.failure {
		case "retry-later":
			warm("a")
			cl.KeyScript["a"] = many(sim.ClsCallQueue)
		case "mixed-retry+nsre", "mixed-nsre+retry":
			// two servers: one answers retry-later, the other keeps refusing the region
			warm("a")
			warm("x")
			k1, k2 := "a", "x"
			if p.failure == "mixed-nsre+retry" {
				k1, k2 = "x", "a"
			}
			cl.KeyScript[k1] = many(sim.ClsCallQueue)
			cl.KeyScript[k2] = many(sim.ClsNSRE)
		case "request-refused-probe-fine":
			// the region answers the client's probe but refuses every user request as not
			// serving (HBase: "Cannot append; log is closed" is mapped to that class)
			warm("a")
			cl.KeyScript["a"] = many(sim.ClsNSRE)
		case "conn-drop-request":
			// the server passes the probe, then answers every user request with a server-fatal exception
			warm("a")
			cl.KeyScript["a"] = many(sim.ClsServerStop)
		case "region-never-online":
			cl.Script[string(regionOf(cl, "t", "a").Name())] = many(sim.ClsNSRE)
		case "meta-retry":
			cl.Script["hbase:meta,,1"] = many(sim.ClsCallQueue)
		case "meta-conn-drop":
			cl.Script["hbase:meta,,1"] = many(sim.ClsServerStop)
		case "meta-timeout":
			cl.Silent[cl.MetaAddr] = true
		case "zk-timeout":
			w.zkSilent = true
		case "zk-error":
			for i := 0; i < 200; i++ {
				cl.ZKScript = append(cl.ZKScript, "connection loss")
			}
		case "dial-refused":
			warm("x")
			cl.Down["rs1:1"] = true
		}
		ctx, cancel := context.WithCancel(context.Background())
		if p.deadline {
			ctx, cancel = vcontext.WithTimeout(context.Background(), 10*time.Minute)
			out.cancelAt = w.now() + 10*time.Minute
		}
		defer cancel()
		// the caller gives up after 10 minutes of virtual time: the schedule is observed until then
		if !p.deadline {
			vrt.GoNamed("h:canceller", func() {
				vrt.Sleep(10 * time.Minute)
				out.cancelAt = w.now()
				cancel()
			})
		}
		switch p.entry {
		case "get":
			g, _ := hrpc.NewGetStr(ctx, "t", "a")
			_, out.err = w.client.Get(g)
		case "batch":
			a, _ := hrpc.NewGetStr(ctx, "t", "a")
			res, _ := w.client.SendBatch(ctx, []hrpc.Call{a})
			out.err = res[0].Error
		case "batch2":
			a, _ := hrpc.NewGetStr(ctx, "t", "a")
			x, _ := hrpc.NewGetStr(ctx, "t", "x")
			res, _ := w.client.SendBatch(ctx, []hrpc.Call{a, x})
			out.err = res[0].Error
		}
		out.returned = true
		cl.KeyScript, cl.Script, cl.ZKScript = map[string][]string{}, map[string][]string{}, nil
		cl.Down = map[string]bool{}
		cl.Silent = map[string]bool{}
		w.zkSilent = false
		w.client.Close()
		vrt.Sleep(10 * time.Minute)
	}
}

// loops extracts the retry loops from the attempts seen by the servers:
// attempts of one call object, probes of one region, lookups (first attempt of each meta scan), ZooKeeper lookups.
func c17Loops(cl *sim.Cluster, until time.Duration) map[string][]time.Duration {
	loops := map[string][]time.Duration{}
	names := map[any]string{}
	seenScan := map[any]bool{}
	for _, a := range cl.Attempts {
		if until > 0 && a.At > until {
			continue
		}
		switch {
		case a.Kind == "exists":
			k := "probe " + a.Region
			loops[k] = append(loops[k], a.At)
		case a.Kind == "metascan":
			if a.Ident != nil {
				if !seenScan[a.Ident] {
					seenScan[a.Ident] = true
					loops["lookup(first scan of each)"] = append(loops["lookup(first scan of each)"], a.At)
				}
				if _, ok := names[a.Ident]; !ok {
					names[a.Ident] = fmt.Sprintf("metascan#%d", len(names)+1)
				}
				k := names[a.Ident]
				loops[k] = append(loops[k], a.At)
			}
		default:
			if a.Ident != nil {
				if _, ok := names[a.Ident]; !ok {
					names[a.Ident] = fmt.Sprintf("%s %s#%d", a.Kind, a.Row, len(names)+1)
				}
				k := names[a.Ident]
				loops[k] = append(loops[k], a.At)
			}
		}
	}
	if len(cl.ZKLookups) > 1 {
		for _, t := range cl.ZKLookups {
			if until <= 0 || t <= until {
				loops["zookeeper"] = append(loops["zookeeper"], t)
			}
		}
	}
	return loops
}

func c17Check(p c17Params, out *c17Obs) func(res *vrt.Result) *explore.Finding {
	return func(res *vrt.Result) *explore.Finding {
		if res.HorizonHit {
			// the clock stood still (or crawled) while the client kept sending: a hot loop
			loops := c17Loops(out.w.cl, 0)
			worst, n := "", 0
			for k, ts := range loops {
				if len(ts) > n {
					worst, n = k, len(ts)
				}
			}
			return &explore.Finding{Class: "hot-retry-loop: " + p.entry + " with " + p.failure,
				Msg: fmt.Sprintf("step horizon reached at virtual time %v: %d attempts of %q, last gaps %v\n%s", res.Now, n, worst, lastGaps(loops[worst], 6), p.name)}
		}
		if f := baseFinding(res); f != nil {
			f.Msg += "\n" + p.name
			return f
		}
		if res.Deadlock {
			return &explore.Finding{Class: "call-blocked-forever", Msg: fmt.Sprintf("%v\n%s", res.Blocked, p.name)}
		}
		table := backoffTable(64)
		for name, ts := range c17Loops(out.w.cl, out.cancelAt) {
			if len(ts) < 3 {
				continue
			}
			// every outage starts a new establisher / lookup with a fresh schedule, so these loops are
			// judged only where they are the loop that persists
			if strings.HasPrefix(name, "probe") && p.failure != "region-never-online" {
				continue
			}
			if (strings.HasPrefix(name, "lookup") || strings.HasPrefix(name, "metascan")) && !strings.HasPrefix(p.failure, "meta-") {
				continue
			}
			if name == "zookeeper" && p.failure != "zk-error" && p.failure != "zk-timeout" {
				continue
			}
			timeoutLoop := (p.failure == "meta-timeout" && strings.HasPrefix(name, "lookup")) || (p.failure == "zk-timeout" && name == "zookeeper")
			if strings.HasSuffix(p.failure, "-timeout") && !timeoutLoop {
				continue
			}
			// up to two immediate retries are allowed for connection-level failures
			// (a region that refuses requests as not serving is a fail-over case like a dead
			// connection: the client may try again at once, twice)
			connLevel := p.failure == "conn-drop-request" || p.failure == "meta-conn-drop" || p.failure == "dial-refused" || p.failure == "request-refused-probe-fine"
			k := 0
			for i := 1; i < len(ts); i++ {
				g := ts[i] - ts[i-1]
				if connLevel && i <= 2 {
					continue // the first two retries of a connection-level failure need not wait
				}
				want := table[k]
				if timeoutLoop {
					// every attempt lasts the lookup timeout, then the wait follows: never restarts
					min := c17ShortTimeout + want
					if p.early {
						min = want // an early-firing timer may cut the attempt itself short, never the wait
					}
					if g < min {
						return &explore.Finding{Class: "retry-gap-below-schedule: " + p.entry + " with " + p.failure,
							Msg: fmt.Sprintf("loop %q: attempt #%d started %v after the previous one; lookup timeout %v + scheduled wait %v demand at least %v (attempt times %v)\n%s",
								name, i, g, c17ShortTimeout, want, c17ShortTimeout+want, head(ts, 12), p.name)}
					}
					k++
					continue
				}
				// establishment / lookup loops restart their own schedule with every outage; a gap may
				// therefore also restart at the beginning of the table, but it must never be shorter
				// than the first step, and within one loop it must not shrink below its predecessor's step
				if g < want {
					if strings.HasPrefix(name, "probe") || strings.HasPrefix(name, "lookup") || name == "zookeeper" || strings.HasPrefix(name, "metascan") {
						if g >= table[0] {
							k = 0
							for k+1 < len(table) && table[k+1] <= g {
								k++
							}
							k++
							continue
						}
					}
					return &explore.Finding{Class: "retry-gap-below-schedule: " + p.entry + " with " + p.failure,
						Msg: fmt.Sprintf("loop %q: gap #%d is %v, the schedule demands at least %v (attempt times %v)\n%s", name, i, g, want, head(ts, 14), p.name)}
				}
				exact := p.failure == "retry-later" && p.entry != "batch2"
				if strings.HasPrefix(p.failure, "mixed") && ((p.failure == "mixed-retry+nsre") == strings.HasPrefix(name, "get a")) {
					exact = true // the call that is told to retry later
				}
				if !p.early && exact && !strings.HasPrefix(name, "probe") && g != want {
					return &explore.Finding{Class: "retry-gap-differs-from-schedule", Msg: fmt.Sprintf("loop %q: gap #%d is %v, schedule says exactly %v\n%s", name, i, g, want, p.name)}
				}
				k++
			}
		}
		if out.returned && out.err == nil && p.failure != "dial-refused" {
			return &explore.Finding{Class: "call-succeeded-against-persistent-failure", Msg: p.name}
		}
		return nil
	}
}

func lastGaps(ts []time.Duration, n int) []time.Duration {
	var g []time.Duration
	for i := len(ts) - n; i < len(ts); i++ {
		if i > 0 {
			g = append(g, ts[i]-ts[i-1])
		}
	}
	return g
}

func head(ts []time.Duration, n int) []time.Duration {
	if len(ts) > n {
		return ts[:n]
	}
	return ts
}

func c17Units(thorough bool) []*explore.Unit {
	var units []*explore.Unit
	for _, entry := range []string{"get", "batch", "batch2"} {
		for _, failure := range []string{"retry-later", "conn-drop-request", "request-refused-probe-fine", "region-never-online", "meta-retry", "meta-conn-drop", "zk-error", "dial-refused", "meta-timeout", "zk-timeout"} {
			for _, early := range []bool{false, true} {
				p := c17Params{entry: entry, failure: failure, early: early}
				p.name = fmt.Sprintf("entry=%s|failure=%s|early-timers=%v", entry, failure, early)
				out := &c17Obs{}
				b := 0
				if early {
					b = 1
					if thorough {
						b = 2
					}
				}
				units = append(units, &explore.Unit{Name: p.name, Bound: b, Opt: vrt.Options{MaxSteps: 40000, EarlyTimers: early},
					Body: c17Body(p, out), Check: c17Check(p, out),
					Sig: func() string {
						if out.w == nil {
							return "?"
						}
						return fmt.Sprintf("attempts=%d err=%s", len(out.w.cl.Attempts), errClass(out.err))
					}})
			}
		}
	}
	for _, entry := range []string{"get", "batch"} {
		for _, failure := range []string{"retry-later", "region-never-online", "meta-retry", "zk-error", "dial-refused", "meta-timeout"} {
			p := c17Params{entry: entry, failure: failure, deadline: true}
			p.name = fmt.Sprintf("entry=%s|failure=%s|caller's deadline", entry, failure)
			out := &c17Obs{}
			units = append(units, &explore.Unit{Name: p.name, Bound: 0, Opt: vrt.Options{MaxSteps: 40000},
				Body: c17Body(p, out), Check: c17Check(p, out)})
		}
	}
	for _, failure := range []string{"mixed-retry+nsre", "mixed-nsre+retry"} {
		for _, early := range []bool{false, true} {
			p := c17Params{entry: "batch2", failure: failure, early: early}
			p.name = fmt.Sprintf("entry=batch2|failure=%s|early-timers=%v", failure, early)
			out := &c17Obs{}
			b := 0
			if early {
				b = 1
			}
			units = append(units, &explore.Unit{Name: p.name, Bound: b, Opt: vrt.Options{MaxSteps: 40000, EarlyTimers: early},
				Body: c17Body(p, out), Check: c17Check(p, out)})
		}
	}
	// the step function itself, against the literal table
	fn := &explore.Unit{Name: "backoff-step-function", Bound: 0}
	var bad string
	fn.Body = func() {
		bad = ""
		b := time.Duration(0)
		table := backoffTable(40)
		var err error
		b, err = gohbase.VBackoff(context.Background(), b)
		if err != nil || b != table[0] {
			bad = fmt.Sprintf("first step %v", b)
			return
		}
		for i := 0; i < 30; i++ {
			t0 := vrt.Now()
			nb, err := gohbase.VBackoff(context.Background(), b)
			if err != nil {
				bad = err.Error()
				return
			}
			if slept := vrt.Now().Sub(t0); slept != table[i] {
				bad = fmt.Sprintf("step %d slept %v, table says %v", i, slept, table[i])
				return
			}
			if nb != table[i+1] {
				bad = fmt.Sprintf("step %d: next wait %v, table says %v", i, nb, table[i+1])
				return
			}
			b = nb
		}
		ctx, cancel := context.WithCancel(context.Background())
		cancel()
		if _, err := gohbase.VBackoff(ctx, b); err == nil {
			bad = "a cancelled wait returned no error"
		}
	}
	fn.Check = func(res *vrt.Result) *explore.Finding {
		if f := baseFinding(res); f != nil {
			return f
		}
		if bad != "" {
			return &explore.Finding{Class: "backoff-function-differs-from-schedule", Msg: bad}
		}
		return nil
	}
	units = append(units, fn)
	return units
}

func init() {
	register(&Prop{
		ID: "C17", Level: "model_checking",
		Technique: "stateless model checking on a virtual clock: persistent-failure scripts x entry points, attempt times stamped by the simulated servers and compared with the literal back-off table; early timer firing (a slow client) as counted deviations; the step horizon turns a hot loop into a finding",
		Rule: "persistent failures {retry-later forever, server passes the probe but drops every request, region passes the probe but refuses every request as not serving, region never online, meta answers retry-later, meta drops requests, ZooKeeper errors, dial refused} x entry {single get, batch of one, batch of two} observed for 10 minutes of virtual time (about 25-35 attempts each); under the default clock the gaps of a retry-later loop must EQUAL 16 ms doubling to 8.192 s then +5 s to 33.192 s, all other loops must be >= the table with at most two immediate retries for connection-level failures and not-serving answers; with early timer firing (<=1, thorough 2 deviations) only the lower bound applies; the wait function itself is stepped 30 times against the table. Non-trivial = every persistent-failure run.",
		Assumptions: []string{"virtual clock", "establishment and lookup loops restart their schedule with every new outage (as the statement allows: they 'back off on the same schedule')"},
		Quick:       150 * time.Second, Thorough: 20 * time.Minute,
		Units: c17Units,
	})
}
