package checks

import (
	"bytes"
	"context"
	"fmt"
	"math"
	"sort"
	"time"

	"github.com/tsuna/gohbase/hrpc"
	"github.com/tsuna/gohbase/pb"
	"google.golang.org/protobuf/proto"

	"verif/explore"
	"verif/sim"
)

// C10: cell encoding is lossless and both mutation encodings agree.

type mutKind struct {
	name   string
	oneVer bool
	mk     func(ctx context.Context, table, key []byte, v map[string]map[string][]byte, o ...func(hrpc.Call) error) (*hrpc.Mutate, error)
}

var mutKinds = []mutKind{
	{"put", false, hrpc.NewPut}, {"append", false, hrpc.NewApp}, {"increment", false, hrpc.NewInc},
	{"delete", false, hrpc.NewDel}, {"delete-one-version", true, hrpc.NewDel},
}

type cellT struct {
	row, fam, qual, val string
	ts                  uint64
	typ                 byte
}

func sortCells(c []cellT) {
	sort.Slice(c, func(i, j int) bool { return fmt.Sprint(c[i]) < fmt.Sprint(c[j]) })
}

// cellsOfProto is the set of cells denoted by the protobuf form (HBase's ProtobufUtil.toPut/toDelete).
func cellsOfProto(m *pb.MutationProto) []cellT {
	var out []cellT
	for _, cv := range m.ColumnValue {
		for _, qv := range cv.QualifierValue {
			ts := uint64(math.MaxInt64) // LATEST_TIMESTAMP
			if m.Timestamp != nil {
				ts = *m.Timestamp
			}
			if qv.Timestamp != nil {
				ts = *qv.Timestamp
			}
			typ := byte(4)
			if m.GetMutateType() == pb.MutationProto_DELETE {
				switch qv.GetDeleteType() {
				case pb.MutationProto_DELETE_ONE_VERSION:
					typ = 8
				case pb.MutationProto_DELETE_MULTIPLE_VERSIONS:
					typ = 12
				case pb.MutationProto_DELETE_FAMILY:
					typ = 14
				case pb.MutationProto_DELETE_FAMILY_VERSION:
					typ = 10
				}
				if qv.DeleteType == nil {
					typ = 0
				}
			}
			// (a nil value leaves the optional value field off the wire where the cellblock form
			// carries an empty value: equal as byte strings, which is what is compared here.
			// HBase itself refuses a put / append / increment without the field - an
			// inconsistency between the two forms that the repository's own tests pin down
			// (region/multi_test.go expects the absent field), noted in DESIGN.md 8.3)
			out = append(out, cellT{string(m.Row), string(cv.Family), string(qv.Qualifier), string(qv.Value), ts, typ})
		}
	}
	sortCells(out)
	return out
}

// specCells is what the caller asked for, derived from the input map only.
func specCells(kind mutKind, row []byte, vals map[string]map[string][]byte, tsOpt *uint64) []cellT {
	ts := uint64(math.MaxInt64)
	if tsOpt != nil {
		ts = *tsOpt
	}
	var out []cellT
	del := kind.name == "delete" || kind.name == "delete-one-version"
	for f, qs := range vals {
		if del && len(qs) == 0 {
			// a family listed without qualifiers (nil or empty map) is a delete of that family
			t := byte(14)
			if kind.oneVer {
				t = 10
			}
			out = append(out, cellT{string(row), f, "", "", ts, t})
			continue
		}
		if !del && qs == nil {
			// a nil inner map on a put-like mutation: the client sends one empty-qualifier cell
			// in the cellblock form; the statement only requires the two forms to agree
			continue
		}
		for qn, v := range qs {
			t := byte(4)
			if del {
				t = 12
				if kind.oneVer {
					t = 8
				}
			}
			out = append(out, cellT{string(row), f, qn, string(v), ts, t})
		}
	}
	sortCells(out)
	return out
}

func bytesOf(n int, seed byte) []byte {
	b := make([]byte, n)
	for i := range b {
		b[i] = seed + byte(i*7)
	}
	return b
}

func c10Direct(c *Ctx) {
	r := c.R
	rowLens := []int{0, 1, 2, 255, 256, 32767, 65535}
	famLens := []int{0, 1, 255}
	qualLens := []int{0, 1, 300}
	valLens := []int{0, 1, 70000}
	if !c.Thorough {
		valLens = []int{0, 1, 3000}
	}
	tss := []*uint64{nil, u64(0), u64(1), u64(math.MaxInt64), u64(math.MaxUint64 - 1), u64(1700000000000)}
	idx := 0
	fail := func(unit, class, msg string, sample any) {
		r.Direct(unit, true, "", &explore.Finding{Class: class, Msg: msg}, func() any { return sample })
	}
	var n, nontriv int64
	outc := map[string]int64{}
	for _, rl := range rowLens {
		row := bytesOf(rl, 'r')
		for _, fl := range famLens {
			fam := string(bytesOf(fl, 'f'))
			fam2 := string(append(bytesOf(fl, 'f'), 'Z'))
			if fl == 255 {
				fam2 = string(bytesOf(fl, 'g'))
			}
			famLo, famHi := fam, fam2
			if famLo > famHi {
				famLo, famHi = famHi, famLo
			}
			for _, ql := range qualLens {
				qual := string(bytesOf(ql, 'q'))
				for _, vl := range valLens {
					val := bytesOf(vl, 'v')
					shapes := []struct {
						name string
						v    map[string]map[string][]byte
					}{
						{"nil", nil},
						{"empty", map[string]map[string][]byte{}},
						{"fam-nil", map[string]map[string][]byte{fam: nil}},
						{"fam-empty", map[string]map[string][]byte{fam: {}}},
						{"one", map[string]map[string][]byte{fam: {qual: val}}},
						{"one-nilvalue", map[string]map[string][]byte{fam: {qual: nil}}},
						{"two-quals", map[string]map[string][]byte{fam: {qual: val, qual + "2": []byte("x")}}},
						{"lo-nil+hi-qual", map[string]map[string][]byte{famLo: nil, famHi: {qual: val}}},
						{"lo-qual+hi-nil", map[string]map[string][]byte{famLo: {qual: val}, famHi: nil}},
						{"lo-empty+hi-qual", map[string]map[string][]byte{famLo: {}, famHi: {qual: nil}}},
						{"lo-qual+hi-empty", map[string]map[string][]byte{famLo: {qual: nil}, famHi: {}}},
					}
					for _, kind := range mutKinds {
						for _, ts := range tss {
							for _, sh := range shapes {
								idx++
								if !r.Owns(idx) {
									continue
								}
								if idx%512 == 0 && r.TimeUp() {
									return
								}
								unit := fmt.Sprintf("%s|row=%d|fam=%d|qual=%d|val=%d|ts=%s|%s", kind.name, rl, fl, ql, vl, tsName(ts), sh.name)
								if c.Filter != "" && c.Filter != unit {
									continue
								}
								var opts []func(hrpc.Call) error
								if ts != nil {
									opts = append(opts, hrpc.TimestampUint64(*ts))
								}
								if kind.oneVer {
									opts = append(opts, hrpc.DeleteOneVersion())
								}
								mu, err := kind.mk(context.Background(), []byte("t"), row, sh.v, opts...)
								if err != nil {
									continue // rejected by the constructor (delete-one-version of a whole row)
								}
								n++
								if len(sh.v) > 0 {
									nontriv++
								}
								var pbReq, cbReq *pb.MutateRequest
								var cbs [][]byte
								var declared uint32
								if m := catch(func() {
									mu.SetRegion(stubRegion)
									pbReq = mu.ToProto().(*pb.MutateRequest)
									var msg proto.Message
									msg, cbs, declared = mu.SerializeCellBlocks(nil)
									cbReq = msg.(*pb.MutateRequest)
								}); m != "" {
									fail(unit, "encoder-panic", m, unit)
									continue
								}
								var blob []byte
								for _, b := range cbs {
									blob = append(blob, b...)
								}
								if int(declared) != len(blob) {
									fail(unit, "declared-cellblock-size-wrong", fmt.Sprintf("declared %d, wrote %d bytes", declared, len(blob)), unit)
									continue
								}
								// independent decoder
								kvs, err := sim.ReadKVs(blob)
								if err != nil {
									fail(unit, "cellblock-not-decodable-by-independent-reader", err.Error(), unit)
									continue
								}
								if int(cbReq.GetMutation().GetAssociatedCellCount()) != len(kvs) {
									fail(unit, "associated-cell-count-wrong", fmt.Sprintf("declared %d cells, %d present", cbReq.GetMutation().GetAssociatedCellCount(), len(kvs)), unit)
									continue
								}
								var cbCells []cellT
								for _, kv := range kvs {
									cbCells = append(cbCells, cellT{string(kv.Row), string(kv.Family), string(kv.Qualifier), string(kv.Value), kv.TS, kv.Type})
								}
								sortCells(cbCells)
								// the client's own decoder
								resp := &pb.GetResponse{Result: &pb.Result{AssociatedCellCount: proto.Int32(int32(len(kvs)))}}
								var nread uint32
								var derr error
								if m := catch(func() {
									g, _ := hrpc.NewGet(context.Background(), []byte("t"), row)
									nread, derr = g.DeserializeCellBlocks(resp, blob)
								}); m != "" {
									fail(unit, "own-decoder-panic-on-own-output", m, unit)
									continue
								}
								if derr != nil || int(nread) != len(blob) {
									fail(unit, "own-decoder-rejects-or-misreads-own-output", fmt.Sprintf("err=%v consumed %d of %d", derr, nread, len(blob)), unit)
									continue
								}
								var own []cellT
								for _, cc := range resp.Result.Cell {
									own = append(own, cellT{string(cc.Row), string(cc.Family), string(cc.Qualifier), string(cc.Value), cc.GetTimestamp(), byte(cc.GetCellType())})
								}
								sortCells(own)
								if fmt.Sprint(own) != fmt.Sprint(cbCells) {
									fail(unit, "own-decoder-disagrees-with-independent-decoder", fmt.Sprintf("own %d cells vs independent %d", len(own), len(cbCells)), unit)
									continue
								}
								pcells := cellsOfProto(pbReq.GetMutation())
								// the nil-inner-map put-like case: compare only the two encodings
								if !equalCells(pcells, cbCells) {
									fail(unit, "protobuf-and-cellblock-forms-denote-different-cells",
										fmt.Sprintf("protobuf form: %s\ncellblock form: %s", showCells(pcells), showCells(cbCells)), unit)
									continue
								}
								spec := specCells(kind, row, sh.v, ts)
								hasNilInnerPut := false
								if kind.name != "delete" && kind.name != "delete-one-version" {
									for _, qs := range sh.v {
										if qs == nil {
											hasNilInnerPut = true
										}
									}
								}
								if !hasNilInnerPut && !equalCells(spec, cbCells) {
									fail(unit, "encoded-cells-differ-from-requested",
										fmt.Sprintf("requested: %s\nencoded: %s", showCells(spec), showCells(cbCells)), unit)
									continue
								}
								outc[fmt.Sprintf("%s/%d cells", kind.name, len(cbCells))]++
								if !bytes.Equal(pbReq.GetMutation().GetRow(), row) || !bytes.Equal(cbReq.GetMutation().GetRow(), row) {
									fail(unit, "row-changed", "", unit)
								}
							}
						}
					}
				}
			}
		}
	}
	st := &r.Stats
	st.Executions += n
	st.NonTrivial += nontriv
	for k, v := range outc {
		st.Outcomes[k] += v
	}
	if r.Shard == 0 {
		st.Samples = append(st.Samples, map[string]any{"kind": "delete", "row_len": 255, "family_len": 255, "qualifier_len": 300, "value_len": 1, "ts": "latest", "shape": "lo-nil+hi-qual"})
	}
}

func equalCells(a, b []cellT) bool { return fmt.Sprint(a) == fmt.Sprint(b) }

func showCells(c []cellT) string {
	var out []string
	for _, x := range c {
		out = append(out, fmt.Sprintf("{row=%dB fam=%.8q qual=%.8q val=%dB ts=%d type=%d}", len(x.row), x.fam, x.qual, len(x.val), x.ts, x.typ))
	}
	return fmt.Sprint(out)
}

func u64(v uint64) *uint64 { return &v }
func tsName(t *uint64) string {
	if t == nil {
		return "latest"
	}
	return fmt.Sprint(*t)
}

func init() {
	register(&Prop{
		ID: "C10", Level: "exploration",
		Technique: "exhaustive small-scope enumeration of the field-length boundary product x mutation kinds x map shapes, decoded by the client's reader and by an independent KeyValue reader, and a set comparison of the protobuf and cellblock forms",
		Rule: "row length {0,1,2,255,256,32767,65535} x family {0,1,255} x qualifier {0,1,300} x value {0,1,3000|70000} x timestamp {latest,0,1,MaxInt64,MaxUint64-1,now} x {put,append,increment,delete,delete-one-version} x 11 map shapes (nil/empty outer and inner maps, two qualifiers, two families in both orders with nil/empty/qualified inner maps). Non-trivial = non-empty value map.",
		Assumptions: []string{"the enumeration is decided a second time in a worker built for GOARCH=386", "family length <= 255 and row length <= 65535 as the statement says", "cells denoted by the protobuf form follow HBase's ProtobufUtil (qualifier timestamp, else mutation timestamp, else LATEST)"},
		Quick:       60 * time.Second, Thorough: 8 * time.Minute,
		Direct: c10Direct, Arch32: true,
	})
}
