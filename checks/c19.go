package checks

import (
	"context"
	"fmt"
	"net"
	"strings"
	"time"

	"github.com/tsuna/gohbase"
	"github.com/tsuna/gohbase/hrpc"
	"github.com/tsuna/gohbase/region"

	"verif/explore"
	"verif/sim"
	"verif/vrt"
)

// C19: Close is terminal and leaves nothing running.
// C20: one connection per regionserver, shared by all its regions.

type c19Params struct {
	layout   string
	keys     []string // one concurrent request per key
	warm     []string
	closeAt  int    // Close() after that many server-side attempts (-1: immediately)
	twice    bool
	env      string // "", meta-slow (meta holds its answer), rs-slow, retry-later, zk-error
}

func (p c19Params) String() string {
	return fmt.Sprintf("%s|keys=%v|warm=%v|close@%d|twice=%v|env=%s", p.layout, p.keys, p.warm, p.closeAt, p.twice, p.env)
}

type c19Obs struct {
	errs      []error
	retAt     []time.Duration
	lateErr   error
	lateAt    time.Duration
	w         *world
	open      []string
	lingering []string
	closeRet  time.Duration
}

func c19Body(p c19Params, out *c19Obs) func() {
	return func() {
		*out = c19Obs{}
		cl := c09Cluster(p.layout)
		w := newWorld(cl)
		out.w = w
		for _, k := range p.warm {
			g, _ := hrpc.NewGetStr(context.Background(), "t", k)
			if _, err := w.client.Get(g); err != nil {
				panic("warm-up failed: " + err.Error())
			}
		}
		switch p.env {
		case "rs-slow":
			for _, k := range p.keys {
				cl.Hold[k] = true
			}
		case "retry-later":
			for _, k := range p.keys {
				for i := 0; i < 100; i++ {
					cl.KeyScript[k] = append(cl.KeyScript[k], sim.ClsCallQueue)
				}
			}
		case "zk-error":
			for i := 0; i < 100; i++ {
				cl.ZKScript = append(cl.ZKScript, "connection loss")
			}
		case "meta-retry":
			for i := 0; i < 100; i++ {
				cl.Script["hbase:meta,,1"] = append(cl.Script["hbase:meta,,1"], sim.ClsCallQueue)
			}
		case "split-away", "merge-away", "dropped":
			// the only cached region of its server is replaced (or vanishes): the connection to
			// that server no longer serves any cached region, yet Close() must still close it
			ra := regionOf(cl, "t", "a")
			switch p.env {
			case "split-away":
				cl.Split(ra, "c", "rs3:1", "rs3:1")
			case "merge-away":
				cl.Merge(ra, regionOf(cl, "t", "x"), "rs3:1")
			default:
				cl.DropTable("t")
			}
		case "probe-nsre":
			for i := 0; i < 100; i++ {
				cl.Script["t"] = append(cl.Script["t"], sim.ClsNSRE)
			}
		}
		base := len(cl.Attempts)
		n := len(p.keys)
		out.errs = make([]error, n)
		out.retAt = make([]time.Duration, n)
		fin := make(chan int, n+1)
		vrt.GoNamed("h:closer", func() {
			if p.closeAt >= 0 {
				late := false
				tm := vrt.AfterFunc(time.Hour, func() { late = true })
				vrt.Await("h:close-trigger", func() bool { return late || len(cl.Attempts)-base >= p.closeAt })
				tm.Stop()
			}
			w.client.Close()
			w.closedAt = w.now()
			if p.twice {
				w.client.Close()
			}
			out.closeRet = w.now()
			vrt.Send(fin, -1)
		})
		for i, k := range p.keys {
			i, k := i, k
			vrt.GoNamed(fmt.Sprintf("h:req%d", i), func() {
				g, _ := hrpc.NewGetStr(context.Background(), "t", k)
				_, out.errs[i] = w.client.Get(g)
				out.retAt[i] = w.now()
				vrt.Send(fin, i)
			})
		}
		for i := 0; i < n+1; i++ {
			vrt.Recv(fin)
		}
		// a call issued after Close
		g, _ := hrpc.NewGetStr(context.Background(), "t", "x")
		t0 := w.now()
		_, out.lateErr = w.client.Get(g)
		out.lateAt = w.now() - t0
		// every call has returned: from now on nothing may start
		w.quiet = true
		vrt.Sleep(2 * time.Hour)
		out.open = w.openConns()
		for _, t := range vrt.Threads() {
			if !harnessThread(t) {
				out.lingering = append(out.lingering, t)
			}
		}
	}
}

func closedErr(err error) bool {
	return err == gohbase.ErrClientClosed || err == region.ErrClientClosed
}

func c19Check(p c19Params, out *c19Obs) func(res *vrt.Result) *explore.Finding {
	return func(res *vrt.Result) *explore.Finding {
		if f := baseFinding(res); f != nil {
			if strings.HasPrefix(f.Class, "step-horizon") {
				f.Class = "activity-never-stops-after-close"
			}
			f.Msg += "\n" + p.String()
			return f
		}
		if res.Deadlock {
			return &explore.Finding{Class: "call-blocked-after-close", Msg: fmt.Sprintf("blocked=%v\n%s", res.Blocked, p)}
		}
		w := out.w
		for i, err := range out.errs {
			if err != nil && !closedErr(err) && !(p.env == "dropped" && err == gohbase.TableNotFound) {
				return &explore.Finding{Class: "call-around-close-returns-other-error", Msg: fmt.Sprintf("request %d: %v (%T)\n%s", i, err, err, p)}
			}
			if out.retAt[i] > w.closedAt+35*time.Second {
				return &explore.Finding{Class: "call-returns-late-after-close", Msg: fmt.Sprintf("request %d returned %v after Close\n%s", i, out.retAt[i]-w.closedAt, p)}
			}
		}
		if !closedErr(out.lateErr) {
			return &explore.Finding{Class: "call-after-close-not-refused", Msg: fmt.Sprintf("a Get issued after Close returned %v\n%s", out.lateErr, p)}
		}
		if out.lateAt > time.Second {
			return &explore.Finding{Class: "call-after-close-not-refused-promptly", Msg: fmt.Sprintf("took %v\n%s", out.lateAt, p)}
		}
		if len(out.open) > 0 {
			return &explore.Finding{Class: "connection-left-open-after-close", Msg: fmt.Sprintf("%v\n%s", out.open, p)}
		}
		if len(w.lateWork) > 0 {
			return &explore.Finding{Class: "work-started-after-close-and-return", Msg: fmt.Sprintf("%v\n%s", w.lateWork, p)}
		}
		if len(out.lingering) > 0 {
			return &explore.Finding{Class: "client-thread-left-running-after-close", Msg: fmt.Sprintf("%v\n%s", out.lingering, p)}
		}
		return nil
	}
}

func c19Units(thorough bool) []*explore.Unit {
	var units []*explore.Unit
	add := func(p c19Params, b int) {
		out := &c19Obs{}
		units = append(units, &explore.Unit{Name: p.String(), Bound: b, Opt: vrt.Options{MaxSteps: 60000},
			Body: c19Body(p, out), Check: c19Check(p, out),
			Sig: func() string {
				var sb strings.Builder
				for _, e := range out.errs {
					sb.WriteString(errClass(e) + "/")
				}
				if out.w != nil {
					fmt.Fprintf(&sb, "rcs=%d late=%d", len(out.w.rcs), len(out.w.lateWork))
				}
				return sb.String()
			}})
	}
	for _, layout := range []string{"spread", "coloc"} {
		for _, env := range []string{"", "rs-slow", "retry-later", "zk-error", "meta-retry", "probe-nsre"} {
			for _, keys := range [][]string{{"a"}, {"a", "x"}} {
				for _, warm := range [][]string{nil, {"a"}} {
					maxAt := 6
					if env != "" {
						maxAt = 3
					}
					for at := -1; at <= maxAt; at++ {
						b := 2
						if thorough && len(keys) == 1 {
							b = 3
						}
						add(c19Params{layout: layout, keys: keys, warm: warm, closeAt: at, twice: at%2 == 0, env: env}, b)
					}
				}
			}
		}
	}
	units = append(units, c19DialUnits()...)
	units = append(units, c19WUnits(thorough)...)
	for _, env := range []string{"split-away", "merge-away", "dropped"} {
		for at := 2; at <= 8; at += 2 {
			add(c19Params{layout: "spread", keys: []string{"a"}, warm: []string{"a", "x"}, closeAt: at, env: env}, 1)
			add(c19Params{layout: "spread", keys: []string{"a", "a"}, warm: []string{"a"}, closeAt: at, env: env}, 1)
		}
	}
	if thorough {
		add(c19Params{layout: "three", keys: []string{"a", "k", "x"}, closeAt: -1}, 2)
		add(c19Params{layout: "coloc", keys: []string{"a", "x"}, closeAt: -1}, 3)
	}
	return units
}

// ---- tier R: the real region client's Dial racing Close

func c19DialUnits() []*explore.Unit {
	var units []*explore.Unit
	for _, order := range []string{"concurrent", "close-first", "concurrent+call"} {
		order := order
		var conns []*sim.Conn
		var dialErr error
		u := &explore.Unit{Name: "region-client|dial-vs-close|" + order, Bound: 2, Opt: vrt.Options{MaxSteps: 20000}}
		u.Body = func() {
			conns, dialErr = nil, nil
			dial := func(ctx context.Context, network, addr string) (net.Conn, error) {
				vrt.Yield("dial")
				c := &sim.Conn{Name: addr}
				conns = append(conns, c)
				return c, nil
			}
			rc := region.NewClient("rs1:1", region.RegionClient, 2, 0, "root", 30*time.Second, nil, dial, quietLogger)
			fin := make(chan int, 3)
			n := 2
			if order == "close-first" {
				rc.Close()
				dialErr = rc.Dial(context.Background())
				n = 0
			} else {
				vrt.GoNamed("h:dialer", func() { dialErr = rc.Dial(context.Background()); vrt.Send(fin, 0) })
				vrt.GoNamed("h:closer", func() { rc.Close(); vrt.Send(fin, 1) })
			}
			if order == "concurrent+call" {
				n = 3
				vrt.GoNamed("h:caller", func() {
					g, _ := hrpc.NewGetStr(context.Background(), "t", "k")
					g.SetRegion(region.NewInfo(1, nil, []byte("t"), []byte("t,,1"), nil, nil))
					rc.QueueRPC(g)
					vrt.Recv(g.ResultChan())
					vrt.Send(fin, 2)
				})
			}
			for i := 0; i < n; i++ {
				vrt.Recv(fin)
			}
			rc.Close()
			vrt.Sleep(time.Hour)
		}
		u.Check = func(res *vrt.Result) *explore.Finding {
			if f := baseFinding(res); f != nil {
				return f
			}
			if res.Deadlock {
				return &explore.Finding{Class: "region-client-call-blocked-around-close", Msg: fmt.Sprintf("%v", res.Blocked)}
			}
			if order == "close-first" && len(conns) > 0 {
				return &explore.Finding{Class: "region-client-dials-after-close", Msg: "Dial() on a closed region client opened a connection"}
			}
			for i, c := range conns {
				if !c.Closed {
					return &explore.Finding{Class: "region-client-connection-never-closed", Msg: fmt.Sprintf("connection %d handed out by the dialer is still open at quiescence (Dial returned %v); ops %v", i, dialErr, c.OpLog)}
				}
			}
			if cb := clientBlocked(res); len(cb) > 0 {
				return &explore.Finding{Class: "region-client-thread-left", Msg: fmt.Sprintf("%v", cb)}
			}
			return nil
		}
		units = append(units, u)
	}
	return units
}

// ---------------------------------------------------------------------------
// C20

type c20Params struct {
	nRegions int
	callers  int
	phase2   string // "", later-discovery, connfail
}

func (p c20Params) String() string {
	return fmt.Sprintf("regions=%d|callers=%d|then=%s", p.nRegions, p.callers, p.phase2)
}

type c20Obs struct {
	w    *world
	errs []error
	created, dialed map[string]int
	maxOpen map[string]int
	note string
}

func c20Body(p c20Params, out *c20Obs) func() {
	return func() {
		*out = c20Obs{}
		cl := sim.NewCluster("rs0:1")
		splits := []string{"e", "k", "q"}[:p.nRegions-1]
		cl.AddTable("t", splits, []string{"rs1:1"})
		w := newWorld(cl)
		out.w = w
		keys := []string{"a", "f", "m", "x"}[:p.nRegions]
		fin := make(chan int, p.callers)
		out.errs = make([]error, p.callers)
		for i := 0; i < p.callers; i++ {
			i := i
			vrt.GoNamed(fmt.Sprintf("h:caller%d", i), func() {
				g, _ := hrpc.NewGetStr(context.Background(), "t", keys[i%len(keys)])
				_, out.errs[i] = w.client.Get(g)
				vrt.Send(fin, i)
			})
		}
		for i := 0; i < p.callers; i++ {
			vrt.Recv(fin)
		}
		switch p.phase2 {
		case "later-discovery":
			// a region of the same server discovered later on the healthy connection
			cl.AddTable("t9", nil, []string{"rs1:1"})
			g, _ := hrpc.NewGetStr(context.Background(), "t9", "a")
			if _, err := w.client.Get(g); err != nil {
				out.note = "later discovery failed: " + err.Error()
			}
		case "split-only-region", "merge-only-regions":
			// the only cached region(s) of a server are replaced by new ones on the SAME server:
			// its healthy connection must be reused, not forgotten and dialled again
			cl.AddTable("t5", nil, []string{"rs5:1"})
			if p.phase2 == "merge-only-regions" {
				cl.DropTable("t5")
				cl.AddTable("t5", []string{"m"}, []string{"rs5:1"})
			}
			for _, k := range []string{"a", "x"} {
				g, _ := hrpc.NewGetStr(context.Background(), "t5", k)
				if _, err := w.client.Get(g); err != nil {
					out.note = "t5 warm-up failed: " + err.Error()
				}
			}
			if p.phase2 == "merge-only-regions" {
				cl.Merge(regionOf(cl, "t5", "a"), regionOf(cl, "t5", "x"), "rs5:1")
			} else {
				cl.Split(regionOf(cl, "t5", "a"), "m", "rs5:1", "rs5:1")
			}
			for _, k := range []string{"a", "x", "a"} {
				g, _ := hrpc.NewGetStr(context.Background(), "t5", k)
				if _, err := w.client.Get(g); err != nil {
					out.note = "request after split/merge failed: " + err.Error()
				}
			}
		case "connfail":
			cl.ResetConns("rs1:1")
			for i := 0; i < p.callers; i++ {
				i := i
				vrt.GoNamed(fmt.Sprintf("h:again%d", i), func() {
					g, _ := hrpc.NewGetStr(context.Background(), "t", keys[i%len(keys)])
					_, err := w.client.Get(g)
					if err != nil {
						out.errs[i] = err
					}
					vrt.Send(fin, i)
				})
			}
			for i := 0; i < p.callers; i++ {
				vrt.Recv(fin)
			}
		}
		vrt.Sleep(30 * time.Minute)
		out.created, out.dialed = map[string]int{}, map[string]int{}
		for _, rc := range w.rcs {
			out.created[rc.addr]++
			if rc.dialed {
				out.dialed[rc.addr]++
			}
		}
		out.maxOpen = cl.MaxOpen
		w.client.Close()
		vrt.Sleep(10 * time.Minute)
	}
}

func c20Check(p c20Params, out *c20Obs) func(res *vrt.Result) *explore.Finding {
	return func(res *vrt.Result) *explore.Finding {
		if f := baseFinding(res); f != nil {
			f.Msg += "\n" + p.String()
			return f
		}
		if res.Deadlock {
			return &explore.Finding{Class: "caller-blocked", Msg: fmt.Sprintf("%v\n%s", res.Blocked, p)}
		}
		for i, e := range out.errs {
			if e != nil {
				return &explore.Finding{Class: "request-failed", Msg: fmt.Sprintf("caller %d: %v\n%s", i, e, p)}
			}
		}
		if out.note != "" {
			return &explore.Finding{Class: "request-failed", Msg: out.note + "\n" + p.String()}
		}
		want := 1
		if p.phase2 == "connfail" {
			want = 2
		}
		for addr, m := range out.maxOpen {
			if m > 1 {
				return &explore.Finding{Class: "two-connections-open-to-one-server", Msg: fmt.Sprintf("%s had %d simultaneously open connections (dials %v)\n%s", addr, m, out.dialed, p)}
			}
		}
		if d := out.dialed["rs1:1"]; d > want {
			return &explore.Finding{Class: "server-dialled-more-often-than-needed", Msg: fmt.Sprintf("rs1:1 was dialled %d times, %d expected (connections created %v)\n%s", d, want, out.created, p)}
		}
		if d := out.dialed["rs5:1"]; d > 1 {
			return &explore.Finding{Class: "healthy-connection-not-reused", Msg: fmt.Sprintf("rs5:1 was dialled %d times although its connection never failed\n%s", d, p)}
		}
		if d := out.dialed["rs0:1"]; d > 1 {
			return &explore.Finding{Class: "server-dialled-more-often-than-needed", Msg: fmt.Sprintf("meta server dialled %d times\n%s", d, p)}
		}
		return nil
	}
}

func c20Units(thorough bool) []*explore.Unit {
	units := c20WUnits(thorough)
	for _, n := range []int{2, 3, 4} {
		for _, callers := range []int{n, n + 1} {
			for _, ph := range []string{"", "later-discovery", "connfail", "split-only-region", "merge-only-regions"} {
				if strings.Contains(ph, "only-region") && callers != n {
					continue
				}
				if callers > 3 && !thorough && ph == "connfail" {
					continue
				}
				p := c20Params{nRegions: n, callers: callers, phase2: ph}
				out := &c20Obs{}
				b := 2
				if callers >= 4 && !thorough {
					b = 1
				}
				if thorough && n == 2 && callers == 2 {
					b = 3
				}
				units = append(units, &explore.Unit{Name: p.String(), Bound: b, Opt: vrt.Options{MaxSteps: 80000},
					Body: c20Body(p, out), Check: c20Check(p, out),
					Sig: func() string { return fmt.Sprintf("created=%v dialed=%v maxopen=%v", out.created, out.dialed, out.maxOpen) }})
			}
		}
	}
	return units
}

func init() {
	register(&Prop{
		ID: "C19", Level: "model_checking",
		Technique: "stateless model checking of Close() racing with requests, lookups, establishment and retries on the real client over a simulated cluster: Close position enumerated over the first server-side attempts x schedules up to a deviation bound; quiescence observer for late work, open connections and leftover threads",
		Rule: "units = layout {two servers, one shared connection} x environment {healthy, servers slow, retry-later, ZooKeeper errors, meta retry-later, probe refused} x 1-2 concurrent requests x cold / partly warm cache x Close() (every second unit: twice) fired immediately or after the k-th server-side attempt, k = 0..6; schedules with <=1 (thorough 2-3) deviations. Oracle: requests return nil or a client-closed error within one back-off step of Close, a later call is refused at once, and after all calls returned: no connection left open, no ZooKeeper lookup / dial / request started, no client thread still running (observed for 2 h of virtual time). Non-trivial = at least one non-default scheduling choice. Tier W additionally: Close() starts at EVERY scheduling step of a thread running client code of one request (thorough: two), answered or held in flight by the servers (vrt.GoInterrupt: the event's thread is created waiting for that step and is the default choice there, so its position is a parameter of the unit and costs no deviation), with <=1 further deviation for the held ones (thorough: for all).",
		Assumptions: []string{"tier L: 'connection closed' = the simulated region client received Close or failed"},
		Quick:       150 * time.Second, Thorough: 25 * time.Minute,
		Units: c19Units,
	})
	register(&Prop{
		ID: "C20", Level: "model_checking",
		Technique: "stateless model checking of the connection cache under concurrent first use: N regions on one address x N(+1) concurrent callers x all schedules with <=2 deviations; dial and open-connection counters at the simulated server",
		Rule: "N in {2,3,4} regions hosted at one address, first used by N or N+1 concurrent callers from a cold cache, followed by nothing / a later discovery of another region on the same server / a connection reset and a second burst; every schedule with <=2 deviations (<=1 for the largest quick units). Oracle: the server is dialled once per connection generation (1, or 2 after the reset), never two connections open to one address at the same time, every request succeeds. Non-trivial = at least one non-default scheduling choice.",
		Assumptions: []string{"tier L: a dial = the first Dial call on a connection object created by the client", "tier W: real region clients and a dialer that fails like net.Dialer when its context ends; dial starts are counted; two regions first used by three callers while the first region splits server-side at every scheduling step (an interrupt) plus <=1 (thorough 2) deviations"},
		Quick:       150 * time.Second, Thorough: 25 * time.Minute,
		Units: c20Units,
	})
}
