package checks

import (
	"context"
	"fmt"
	"net"
	"strings"
	"sync"
	"time"

	"github.com/tsuna/gohbase/hrpc"
	"github.com/tsuna/gohbase/pb"
	"github.com/tsuna/gohbase/region"

	"verif/explore"
	"verif/sim"
	"verif/vrt"
)

// C03: a failing connection completes every outstanding request exactly once.

type c03Params struct {
	mix     string
	calls   []callSpec
	cfg     rigCfg
	srvKind string // "", eof, trunc, garbage, unknownid, fatalexc, silent, nocallid
	srvAt   int    // 1-based frame index
	closer  bool
	// closeStep > 0: Close() interrupts at this scheduling step (-1: never; probe run)
	closeStep int
}

type c03Obs struct {
	startStep, endStep int
	got, left          []int
	errs               []error
	lateN              int
	late               error
	lateTried          bool
	failed             bool // the connection was failed (by fault, server behaviour or Close)
	injected           bool // the harness injected a failure cause
	ops                int
	frames             int
	opLog              []string
	faulted            []string
	dialErr            error
	r                  *rig
}

func c03Mixes() map[string]struct {
	calls []callSpec
	cfg   rigCfg
} {
	return map[string]struct {
		calls []callSpec
		cfg   rigCfg
	}{
		"A:2batched+1direct": {[]callSpec{{Kind: "get", Key: "k0"}, {Kind: "get", Key: "k1"}, {Kind: "get", Key: "k2", SkipBatch: true}}, rigCfg{QueueSize: 2}},
		"B:put+get-direct":   {[]callSpec{{Kind: "put", Key: "k0", SkipBatch: true}, {Kind: "get", Key: "k1", SkipBatch: true}}, rigCfg{QueueSize: 1}},
		"C:3puts-q2-timer":   {[]callSpec{{Kind: "put", Key: "k0"}, {Kind: "put", Key: "k1"}, {Kind: "put", Key: "k2"}}, rigCfg{QueueSize: 2, Flush: 20 * time.Millisecond}},
		"D:cancelled+live":   {[]callSpec{{Kind: "get", Key: "k0", Cancelled: true}, {Kind: "get", Key: "k1", SkipBatch: true}, {Kind: "put", Key: "k2"}}, rigCfg{QueueSize: 2}},
	}
}

func c03Body(p c03Params, out *c03Obs) func() {
	return func() {
		*out = c03Obs{}
		r := newRig(p.cfg)
		out.r = r
		n := len(p.calls)
		calls := make([]hrpc.Call, n)
		for i, s := range p.calls {
			calls[i], _ = r.mkCall(s)
		}
		out.got = make([]int, n)
		out.left = make([]int, n)
		out.errs = make([]error, n)
		silent := false
		frameNo := 0
		r.srv.OnFrame = func(s *sim.Server, f *sim.Frame) {
			frameNo++
			id := f.Header.GetCallId()
			resp, cells := answer(f)
			if p.srvKind != "" && frameNo == p.srvAt {
				out.injected = true
				switch p.srvKind {
				case "eof":
					s.CloseConn()
				case "trunc":
					b := sim.EncodeResponse(id, resp, nil, cells)
					s.Send(b[:len(b)/2])
					s.CloseConn()
				case "garbage":
					s.Send([]byte{0, 0, 0, 3, 0xff, 0xff, 0xff})
				case "unknownid":
					s.Send(sim.EncodeResponse(id+1000, resp, nil, cells))
				case "nocallid":
					s.Send(sim.EncodeRawResponse(&pb.ResponseHeader{}, resp, nil))
				case "fatalexc":
					s.Send(sim.EncodeResponse(id, nil, sim.Exc("org.apache.hadoop.hbase.regionserver.RegionServerStoppedException", "stopped"), nil))
				case "silent":
					silent = true
				}
				return
			}
			if silent {
				return
			}
			s.Send(sim.EncodeResponse(id, resp, nil, cells))
		}
		out.dialErr = r.rc.Dial(context.Background())
		vrt.GoNamed("h:server", r.srv.Run)
		fin := make(chan int, n+1)
		for i := range calls {
			i := i
			vrt.GoNamed(fmt.Sprintf("h:caller%d", i), func() {
				r.rc.QueueRPC(calls[i])
				var sel vrt.Select
				slot := vrt.AddRecv(&sel, calls[i].ResultChan())
				vrt.AddRecv(&sel, calls[i].Context().Done())
				if sel.Wait() == 0 {
					out.got[i]++
					out.errs[i] = slot.V.Error
				}
				vrt.Send(fin, i)
			})
		}
		out.startStep = vrt.Steps()
		closed := false
		if p.closer {
			out.injected = true
			spawn := vrt.GoNamed
			if p.closeStep != 0 {
				late := false
				tm := vrt.AfterFunc(time.Hour, func() { late = true })
				spawn = func(name string, f func()) {
					vrt.GoInterrupt(name, func() bool { return late || (p.closeStep > 0 && vrt.Steps() >= p.closeStep) }, func() { tm.Stop(); f() })
				}
			}
			spawn("h:closer", func() {
				closed = true
				r.rc.Close()
				vrt.Send(fin, -1)
			})
		}
		for i := 0; i < n; i++ {
			vrt.Recv(fin)
		}
		if !closed {
			out.endStep = vrt.Steps()
		}
		if p.closer {
			vrt.Recv(fin)
		}
		vrt.Sleep(time.Second)
		if len(r.conn.Faulted) > 0 || len(r.srv.Errors) > 0 {
			// a protocol error seen by the server makes it drop the connection: an
			// environment-initiated failure as far as C03 is concerned (C05 judges the bytes)
			out.injected = true
		}
		out.failed = r.conn.Closed || out.dialErr != nil
		if out.failed {
			// the connection is dead: a later call must be refused at once
			out.lateTried = true
			g, _ := r.mkCall(callSpec{Kind: "get", Key: "late", SkipBatch: len(p.calls)%2 == 0})
			r.rc.QueueRPC(g)
			var sel vrt.Select
			sel.HasDefault = true
			slot := vrt.AddRecv(&sel, g.ResultChan())
			if sel.Wait() == 0 {
				out.lateN = 1
				out.late = slot.V.Error
			}
		}
		r.rc.Close()
		vrt.Sleep(time.Minute)
		for i, c := range calls {
			out.left[i] = len(c.ResultChan())
		}
		out.ops = r.conn.Ops
		out.opLog = r.conn.OpLog
		out.faulted = r.conn.Faulted
		out.frames = len(r.srv.Frames)
		r.srv.Stop = true
	}
}

func c03Check(p c03Params, out *c03Obs) func(res *vrt.Result) *explore.Finding {
	return func(res *vrt.Result) *explore.Finding {
		if f := baseFinding(res); f != nil {
			return f
		}
		if out.r != nil {
			out.opLog, out.faulted = out.r.conn.OpLog, out.r.conn.Faulted
		}
		ctx := fmt.Sprintf("mix=%s faults=%v srv=%s@%d closer=%v oplog=%v", p.mix, out.faulted, p.srvKind, p.srvAt, p.closer, out.opLog)
		if res.Deadlock {
			// which callers never got a completion?
			var stuck []string
			for _, b := range res.Blocked {
				if strings.Contains(b, "h:caller") {
					stuck = append(stuck, b)
				}
			}
			return &explore.Finding{Class: "request-never-completed", Msg: fmt.Sprintf("callers still waiting at quiescence: %v; all blocked: %v\n%s", stuck, res.Blocked, ctx)}
		}
		for i := range out.got {
			total := out.got[i] + out.left[i]
			if p.calls[i].Cancelled {
				if total > 1 {
					return &explore.Finding{Class: "request-completed-twice", Msg: fmt.Sprintf("cancelled call %d completed %d times\n%s", i, total, ctx)}
				}
				continue
			}
			if total == 0 {
				return &explore.Finding{Class: "request-never-completed", Msg: fmt.Sprintf("call %d got no completion\n%s", i, ctx)}
			}
			if total > 1 {
				return &explore.Finding{Class: "request-completed-twice", Msg: fmt.Sprintf("call %d completed %d times\n%s", i, total, ctx)}
			}
			if out.got[i] == 1 && out.errs[i] != nil {
				if _, ok := out.errs[i].(region.ServerError); !ok {
					return &explore.Finding{Class: "failed-with-non-connection-error", Msg: fmt.Sprintf("call %d: %v (%T)\n%s", i, out.errs[i], out.errs[i], ctx)}
				}
				if !out.injected {
					return &explore.Finding{Class: "connection-error-without-failure", Msg: fmt.Sprintf("call %d: %v although nothing failed\n%s", i, out.errs[i], ctx)}
				}
			}
		}
		if out.lateTried {
			if out.lateN != 1 {
				return &explore.Finding{Class: "late-request-not-refused-immediately", Msg: "a call queued after the failure got no immediate completion\n" + ctx}
			}
			if _, ok := out.late.(region.ServerError); !ok {
				return &explore.Finding{Class: "late-request-wrong-error-class", Msg: fmt.Sprintf("%v (%T)\n%s", out.late, out.late, ctx)}
			}
		}
		if cb := clientBlocked(res); len(cb) > 0 {
			return &explore.Finding{Class: "client-thread-left-blocked", Msg: fmt.Sprintf("%v\n%s", cb, ctx)}
		}
		return nil
	}
}

func c03Sig(out *c03Obs) func() string {
	return func() string {
		var sb strings.Builder
		for i := range out.got {
			fmt.Fprintf(&sb, "%d%s/", out.got[i], errClass(out.errs[i]))
		}
		fmt.Fprintf(&sb, "failed=%v late=%d", out.failed, out.lateN)
		return sb.String()
	}
}

func c03Units(thorough bool) []*explore.Unit {
	var units []*explore.Unit
	bound := 1
	if thorough {
		bound = 2
	}
	add := func(p c03Params, b int) {
		out := &c03Obs{}
		name := fmt.Sprintf("%s|faults=%v|srv=%s@%d|closer=%v", p.mix, p.cfg.Faults, p.srvKind, p.srvAt, p.closer)
		if p.closeStep != 0 {
			name += fmt.Sprintf("|close at step %d", p.closeStep)
		}
		units = append(units, &explore.Unit{Name: name, Bound: b, Opt: vrt.Options{MaxSteps: 20000},
			Body: c03Body(p, out), Check: c03Check(p, out), Sig: c03Sig(out),
			Describe: func() any { return map[string]any{"oplog": out.opLog, "faulted": out.faulted, "frames": out.frames} }})
	}
	mixes := c03Mixes()
	names := []string{"A:2batched+1direct", "B:put+get-direct", "C:3puts-q2-timer", "D:cancelled+live"}
	for _, mn := range names {
		m := mixes[mn]
		base := c03Params{mix: mn, calls: m.calls, cfg: m.cfg}
		// fault-free probe: number of connection operations and request frames
		probe := &c03Obs{}
		explore.RunOnce(&explore.Unit{Body: c03Body(base, probe)}, nil)
		nops, nframes, oplog := probe.ops, probe.frames, probe.opLog
		add(base, bound)
		cl := base
		cl.closer = true
		add(cl, bound+1)
		for k := 1; k <= nops; k++ {
			partials := []int{0}
			if k-1 < len(oplog) && oplog[k-1] == "write" {
				partials = []int{0, 5, -1}
			}
			for _, pa := range partials {
				p := base
				p.cfg.Faults = []sim.Fault{{At: k, Partial: pa}}
				add(p, bound)
				if pa == 0 {
					// Close racing a sender that is past its done check needs two
					// preemptions (into Close, and out of it before the socket is shut)
					p.closer = true
					add(p, bound+1)
				}
			}
		}
		for _, kind := range []string{"eof", "trunc", "garbage", "unknownid", "nocallid", "fatalexc", "silent"} {
			for j := 1; j <= nframes; j++ {
				p := base
				p.srvKind, p.srvAt = kind, j
				add(p, bound)
				if thorough || kind == "silent" {
					p.closer = true
					add(p, bound+1)
				}
			}
		}
		// Close() at every scheduling step of a thread running client code, with a healthy
		// server and with one that never answers (the position of Close is a parameter of
		// the unit: vrt.GoInterrupt)
		for _, silent := range []bool{false, true} {
			pp := base
			pp.closer, pp.closeStep = true, -1
			if silent {
				pp.srvKind, pp.srvAt = "silent", 1
			}
			po := &c03Obs{}
			vrt.Tracing = true
			res, _ := explore.RunOnce(&explore.Unit{Opt: vrt.Options{MaxSteps: 20000}, Body: c03Body(pp, po)}, nil)
			vrt.Tracing = false
			nk := 0
			for i, line := range res.Trace {
				k := res.TraceSteps[i]
				if k <= po.startStep || harnessThread(strings.SplitN(line, " ", 2)[0]) && !strings.Contains(line, ":h:caller") {
					continue
				}
				if po.endStep > 0 && k > po.endStep || nk >= 200 {
					break
				}
				nk++
				ps := pp
				ps.closeStep = k
				add(ps, bound)
			}
		}
		if thorough {
			// two faults
			for k := 1; k <= nops; k++ {
				for k2 := k + 1; k2 <= nops+1; k2++ {
					p := base
					p.cfg.Faults = []sim.Fault{{At: k}, {At: k2}}
					add(p, 1)
				}
			}
			// short reads: every Read returns one byte
			p := base
			p.cfg.MaxRead = 1
			add(p, 1)
		}
	}
	return units
}

// c03Race: senders racing an external Close on the real region client, free-running for
// the race detector; every call must still be completed exactly once.
func c03Race() []RaceBody {
	run := func(qsize int) func(iter int) error {
		return func(iter int) error {
			conn := &sim.Conn{Name: "rs1:1"}
			dial := func(ctx context.Context, network, addr string) (net.Conn, error) { return conn, nil }
			rc := region.NewClient("rs1:1", region.RegionClient, qsize, time.Millisecond, "root", 30*time.Second, nil, dial, quietLogger)
			reg := region.NewInfo(1, nil, []byte("t"), []byte("t,,1"), nil, nil)
			srv := &sim.Server{Conn: conn}
			if err := rc.Dial(context.Background()); err != nil {
				return err
			}
			go srv.ServeReal(func(f *sim.Frame) []byte {
				resp, cells := answer(f)
				return sim.EncodeResponse(f.Header.GetCallId(), resp, nil, cells)
			})
			var wg sync.WaitGroup
			errs := make(chan error, 64)
			for g := 0; g < 3; g++ {
				g := g
				wg.Add(1)
				go func() {
					defer wg.Done()
					for j := 0; j < 4; j++ {
						var opts []func(hrpc.Call) error
						if (g+j)%2 == 0 {
							opts = append(opts, hrpc.SkipBatch())
						}
						key := fmt.Sprintf("g%dk%d", g, j)
						p, _ := hrpc.NewPutStr(context.Background(), "t", key, map[string]map[string][]byte{"f": {"q": []byte(key)}}, opts...)
						p.SetRegion(reg)
						rc.QueueRPC(p)
						select {
						case res := <-p.ResultChan():
							if res.Error != nil {
								if _, ok := res.Error.(region.ServerError); !ok {
									errs <- fmt.Errorf("put %s failed with a non-connection error: %v", key, res.Error)
								}
							}
						case <-time.After(raceWait):
							errs <- fmt.Errorf("put %s was never completed\n%s", key, allStacks())
							return
						}
						select {
						case res := <-p.ResultChan():
							errs <- fmt.Errorf("put %s was completed twice (%v)", key, res.Error)
						default:
						}
					}
				}()
			}
			wg.Add(1)
			go func() {
				defer wg.Done()
				time.Sleep(time.Duration(iter%7) * 150 * time.Microsecond)
				rc.Close()
			}()
			wg.Wait()
			rc.Close()
			select {
			case e := <-errs:
				return e
			default:
			}
			return nil
		}
	}
	return []RaceBody{{"3 senders + Close, unbatched", run(1)}, {"3 senders + Close, batched", run(3)}}
}

func init() {
	register(&Prop{
		Race: c03Race,
		ID:   "C03", Level: "fault_enumeration",
		Technique:   "stateless model checking of the real region client: every connection-operation fault position and server misbehaviour crossed with all schedules up to a deviation bound, under a controlled scheduler with virtual time",
		Rule:        "units = call mix (batched/unbatched/cellblock/cancelled) x {no fault, k-th connection op fails for every k incl. partial writes, server EOF / truncated frame / undecodable header / unknown call id / missing call id / server-fatal exception / silence at every frame} x {external Close() thread or not}; for each unit every schedule with <=1 (thorough <=2) deviations from the default run-to-block schedule. Oracle per call: exactly one completion on its result channel, class ServerError unless genuinely answered; later calls refused at once; no client thread left blocked. Non-trivial = at least one non-default scheduling choice. Close() additionally starts at EVERY scheduling step of a thread running client code, with a healthy and with a silent server (vrt.GoInterrupt: the event's thread is created waiting for that step and is the default choice there, so its position is a parameter of the unit and costs no deviation), each with <=1 (thorough 2) further deviations; Close x fault units one deviation deeper than the rest.",
		Assumptions: []string{"scheduling points: channel ops, locks, atomics, Once, every net.Conn method; code between them is atomic (Go memory model, race freedom checked separately)", "virtual time: timers fire at quiescence (or earlier as a counted deviation)"},
		Quick:       100 * time.Second, Thorough: 20 * time.Minute,
		Units: c03Units,
	})
}
