package checks

import (
	"context"
	"errors"
	"fmt"
	"github.com/tsuna/gohbase"
	"io"
	"strings"
	"time"

	"github.com/tsuna/gohbase/hrpc"

	"verif/explore"
	"verif/sim"
	"verif/vrt"
	"verif/vrt/vcontext"
)

// C13: cancellation is honoured promptly in every state.

type c13Params struct {
	state string // zk-silent | meta-silent | probe-silent | backoff | server-silent | established-then-silent | lookup-backoff
	entry string // get | batch-shared | batch-own | scan
	how   string // cancel | deadline
	after time.Duration
	step  int // how == "cancel-at-step": the scheduling step at which the canceller interrupts (-1: never, probe run)
}

func (p c13Params) String() string {
	if p.how == "cancel-at-step" {
		return fmt.Sprintf("state=%s|entry=%s|cancel at step %d", p.state, p.entry, p.step)
	}
	return fmt.Sprintf("state=%s|entry=%s|%s@%v", p.state, p.entry, p.how, p.after)
}

type c13Obs struct {
	returned     bool
	err          error
	batchRes     []hrpc.RPCResult
	cancelAt     time.Duration
	returnedAt   time.Duration
	w            *world
	otherErr     error
	returnedStep int
	startStep    int // scheduling step at which the API call under test began
}

func c13Body(p c13Params, out *c13Obs) func() {
	return func() {
		*out = c13Obs{cancelAt: -1}
		cl := stdCluster()
		w := newWorld(cl)
		out.w = w
		warm := func(k string) {
			g, _ := hrpc.NewGetStr(context.Background(), "t", k)
			if _, err := w.client.Get(g); err != nil {
				panic("warm-up failed: " + err.Error())
			}
		}
		if p.entry == "batch-own" {
			// the other call of the batch (key x) has a live context and a healthy path:
			// the batch can and must return as soon as call a's own context ends
			warm("x")
		}
		switch p.state {
		case "zk-silent":
			w.zkSilent = true
		case "meta-silent":
			cl.Silent[cl.MetaAddr] = true
		case "probe-silent":
			cl.Silent["rs1:1"] = true
		case "backoff":
			warm("a")
			for i := 0; i < 40; i++ {
				cl.KeyScript["a"] = append(cl.KeyScript["a"], sim.ClsCallQueue)
			}
		case "server-silent":
			warm("a")
			cl.Hold["a"] = true
			cl.Hold[""] = true
		case "reestablish":
			warm("a")
			ra := string(regionOf(cl, "t", "a").Name())
			cl.Script[ra] = append(cl.Script[ra], sim.ClsNSRE)
			cl.Silent[cl.MetaAddr] = true
		case "lookup-backoff":
			for i := 0; i < 40; i++ {
				cl.Script["hbase:meta,,1"] = append(cl.Script["hbase:meta,,1"], sim.ClsCallQueue)
			}
		}
		var ctx context.Context
		var cancel context.CancelFunc
		if p.how == "deadline" {
			ctx, cancel = vcontext.WithTimeout(context.Background(), p.after)
			out.cancelAt = w.now() + p.after
		} else {
			ctx, cancel = context.WithCancel(context.Background())
		}
		defer cancel()
		out.startStep = vrt.Steps()
		if p.how == "cancel" || p.how == "cancel-at-step" {
			spawn := vrt.GoNamed
			if p.how == "cancel-at-step" {
				// an interrupt: the canceller runs exactly at that step of the execution
				spawn = func(name string, f func()) {
					vrt.GoInterrupt(name, func() bool { return p.step >= 0 && vrt.Steps() >= p.step }, f)
				}
			}
			spawn("h:canceller", func() {
				if p.how == "cancel" && p.after > 0 {
					vrt.Sleep(p.after)
				}
				out.cancelAt = w.now()
				// from this instant the environment answers nothing: only client-internal steps remain
				if p.entry != "batch-own" {
					w.frozen = true
				}
				cancel()
			})
		}
		switch p.entry {
		case "get":
			g, _ := hrpc.NewGetStr(ctx, "t", "a")
			_, out.err = w.client.Get(g)
		case "put":
			pt, _ := hrpc.NewPutStr(ctx, "t", "a", map[string]map[string][]byte{"f": {"q": []byte("v")}})
			_, out.err = w.client.Put(pt)
		case "batch-shared":
			a, _ := hrpc.NewGetStr(ctx, "t", "a")
			x, _ := hrpc.NewGetStr(ctx, "t", "x")
			res, ok := w.client.SendBatch(ctx, []hrpc.Call{a, x})
			out.batchRes = res
			if !ok && len(res) > 0 {
				out.err = res[0].Error
			}
		case "batch-own":
			// the batch context stays alive; only the context of call "a" ends
			a, _ := hrpc.NewGetStr(ctx, "t", "a")
			x, _ := hrpc.NewGetStr(context.Background(), "t", "x")
			res, ok := w.client.SendBatch(context.Background(), []hrpc.Call{a, x})
			out.batchRes = res
			if !ok && len(res) > 0 {
				out.err = res[0].Error
				out.otherErr = res[1].Error
			}
		case "scan":
			sc, _ := hrpc.NewScanStr(ctx, "t")
			s := w.client.Scan(sc)
			_, out.err = s.Next()
		}
		out.returned = true
		out.returnedAt = w.now()
		out.returnedStep = vrt.Steps()
		w.frozen, w.zkSilent = false, false
		cl.Silent = map[string]bool{}
		cl.KeyScript = map[string][]string{}
		cl.Script = map[string][]string{}
		w.releaseHolds()
		vrt.Sleep(time.Minute)
		w.client.Close()
		vrt.Sleep(10 * time.Minute)
	}
}

func isCtxErr(err error) bool {
	return err != nil && (errors.Is(err, context.Canceled) || errors.Is(err, context.DeadlineExceeded))
}

func c13Check(p c13Params, out *c13Obs) func(res *vrt.Result) *explore.Finding {
	return func(res *vrt.Result) *explore.Finding {
		if f := baseFinding(res); f != nil {
			if strings.HasPrefix(f.Class, "step-horizon") {
				f.Class = "call-does-not-return-after-cancellation (keeps retrying)"
			}
			f.Msg += "\n" + p.String()
			return f
		}
		if res.Deadlock || !out.returned {
			var where []string
			for _, b := range res.Blocked {
				if strings.HasPrefix(b, "0:") {
					where = append(where, b)
				}
			}
			return &explore.Finding{Class: "call-blocked-after-cancellation: " + p.entry + " in state " + p.state,
				Msg: fmt.Sprintf("the API call is still blocked at quiescence (cancelled at %v): %v; all blocked: %v\n%s", out.cancelAt, where, res.Blocked, p)}
		}
		if out.cancelAt < 0 {
			return nil // the call completed before the canceller ran
		}
		if out.returnedAt < out.cancelAt {
			return nil // completed before the cancellation instant
		}
		if d := out.returnedAt - out.cancelAt; d > time.Second {
			return &explore.Finding{Class: "cancellation-honoured-late: " + p.entry + " in state " + p.state, Msg: fmt.Sprintf("returned %v after the context ended\n%s", d, p)}
		}
		if strings.HasPrefix(p.entry, "batch") {
			// a batch returns; the affected call carries a context error, calls that were never
			// sent carry the documented NotExecutedError
			// every call that did not complete is marked failed
			for i, rr := range out.batchRes {
				if rr.Error == nil && rr.Msg == nil {
					return &explore.Finding{Class: "cancelled-batch-leaves-empty-result", Msg: fmt.Sprintf("res[%d]\n%s", i, p)}
				}
			}
			if p.entry == "batch-own" && len(out.batchRes) == 2 && out.batchRes[0].Error == nil && out.batchRes[0].Msg == nil {
				return &explore.Finding{Class: "cancelled-call-not-marked-failed", Msg: p.String()}
			}
			if p.entry == "batch-own" && isCtxErr(out.otherErr) {
				return &explore.Finding{Class: "other-call-of-batch-failed-by-foreign-cancellation", Msg: fmt.Sprintf("%v\n%s", out.otherErr, p)}
			}
			return nil
		}
		if !isCtxErr(out.err) {
			// the operation may legitimately have finished at the very instant of cancellation
			if out.err == nil || (p.entry == "scan" && out.err == io.EOF) {
				return nil
			}
			return &explore.Finding{Class: "cancelled-call-returns-non-context-error", Msg: fmt.Sprintf("%v (%T)\n%s", out.err, out.err, p)}
		}
		if p.entry == "batch-own" && isCtxErr(out.otherErr) {
			return &explore.Finding{Class: "other-call-of-batch-failed-by-foreign-cancellation", Msg: fmt.Sprintf("%v\n%s", out.otherErr, p)}
		}
		return nil
	}
}

// ---- tier R: a busy send queue (writer blocked in Write)

func c13QueueUnit(how string) *explore.Unit {
	var returned bool
	var cancelAt, returnedAt time.Duration
	u := &explore.Unit{Name: "state=send-queue-busy|entry=region-client-queue|" + how, Bound: 1, Opt: vrt.Options{MaxSteps: 20000}}
	u.Body = func() {
		returned, cancelAt, returnedAt = false, -1, 0
		r := newRig(rigCfg{QueueSize: 2})
		epoch := vrt.Now()
		if err := r.rc.Dial(context.Background()); err != nil {
			panic(err)
		}
		vrt.GoNamed("h:server", r.srv.Run)
		r.conn.BlockWrites = true
		// the first call is flushed at once and its writer blocks in Write; the next call finds the queue busy
		for i := 0; i < 1; i++ {
			c, _ := r.mkCall(callSpec{Kind: "get", Key: fmt.Sprintf("k%d", i)})
			r.rc.QueueRPC(c)
		}
		var ctx context.Context
		var cancel context.CancelFunc
		if how == "deadline" {
			ctx, cancel = vcontext.WithTimeout(context.Background(), 5*time.Second)
			cancelAt = 5 * time.Second
		} else {
			ctx, cancel = context.WithCancel(context.Background())
			vrt.GoNamed("h:canceller", func() {
				vrt.Sleep(time.Second)
				cancelAt = vrt.Now().Sub(epoch)
				cancel()
			})
		}
		defer cancel()
		g, _ := hrpc.NewGetStr(ctx, "t", "k9")
		g.SetRegion(r.reg)
		r.rc.QueueRPC(g) // must give up when ctx ends although the queue never drains
		returned = true
		returnedAt = vrt.Now().Sub(epoch)
		r.conn.BlockWrites = false
		r.rc.Close()
		vrt.Sleep(time.Minute)
		r.srv.Stop = true
	}
	u.Check = func(res *vrt.Result) *explore.Finding {
		if f := baseFinding(res); f != nil {
			return f
		}
		if res.Deadlock || !returned {
			return &explore.Finding{Class: "call-blocked-after-cancellation: queueing on a busy region client", Msg: fmt.Sprintf("%v", res.Blocked)}
		}
		if cancelAt >= 0 && returnedAt > cancelAt+time.Second {
			return &explore.Finding{Class: "cancellation-honoured-late", Msg: fmt.Sprintf("queueing returned at %v, context ended at %v", returnedAt, cancelAt)}
		}
		return nil
	}
	return u
}

// c13WireFaultUnits (tier W): two callers with their own contexts send directly over one
// real region client (two regions on one server, queue size 1); the server never answers
// them; the k-th operation on that connection fails, for every k of the window in which
// the requests are sent; later both contexts are cancelled. Whatever the failing
// connection left behind inside the region client (locks, counters, queues), both calls
// must return promptly after the cancellation.
func c13WireFaultUnits(thorough bool) []*explore.Unit {
	var units []*explore.Unit
	maxK := 14
	if thorough {
		maxK = 24
	}
	for k := 0; k <= maxK; k++ {
		for _, entries := range [][2]string{{"get", "get"}, {"get", "scan"}, {"put", "scan"}} {
			k, entries := k, entries
			var returned [2]bool
			var errs [2]error
			var cancelAt time.Duration
			var retAt [2]time.Duration
			var faulted []string
			// one deviation lets the second caller write before the first one's failure
			b := 1
			if thorough {
				b = 2
			}
			u := &explore.Unit{Name: fmt.Sprintf("wire|%s+%s held in flight|connection op +%d fails|cancel", entries[0], entries[1], k), Bound: b, Opt: vrt.Options{MaxSteps: 80000}}
			u.Body = func() {
				returned, errs, retAt, cancelAt, faulted = [2]bool{}, [2]error{}, [2]time.Duration{}, -1, nil
				cl := sim.NewCluster("rs0:1")
				cl.AddTable("t", []string{"m"}, []string{"rs1:1"})
				w := newWorldW(cl, gohbase.FlushInterval(0), gohbase.RpcQueueSize(1))
				for _, key := range []string{"a", "x"} {
					g, _ := hrpc.NewGetStr(context.Background(), "t", key)
					if _, err := w.client.Get(g); err != nil {
						panic("warm-up failed: " + err.Error())
					}
				}
				cl.Hold["a"], cl.Hold["x"], cl.Hold[""] = true, true, true
				var target *sim.Conn
				for _, wc := range cl.WConns {
					if wc.Addr == "rs1:1" && !wc.Conn.Closed {
						target = wc.Conn
					}
				}
				if target != nil && k > 0 {
					target.Faults = append(target.Faults, sim.Fault{At: target.Ops + k})
				}
				ctx, cancel := context.WithCancel(context.Background())
				fin := make(chan int, 2)
				for i, key := range []string{"a", "x"} {
					i, key := i, key
					vrt.GoNamed(fmt.Sprintf("h:req%d", i), func() {
						switch entries[i] {
						case "get":
							g, _ := hrpc.NewGetStr(ctx, "t", key)
							_, errs[i] = w.client.Get(g)
						case "put":
							pt, _ := hrpc.NewPutStr(ctx, "t", key, map[string]map[string][]byte{"f": {"q": []byte("v")}})
							_, errs[i] = w.client.Put(pt)
						case "scan":
							sc, _ := hrpc.NewScanRangeStr(ctx, "t", key, key+"z")
							_, errs[i] = w.client.Scan(sc).Next()
						}
						returned[i] = true
						retAt[i] = w.now()
						vrt.Send(fin, i)
					})
				}
				vrt.GoNamed("h:canceller", func() {
					vrt.Sleep(100 * time.Second)
					cancelAt = w.now()
					cancel()
				})
				vrt.Recv(fin)
				vrt.Recv(fin)
				if target != nil {
					faulted = target.Faulted
				}
				cl.Hold = map[string]bool{}
				cl.ReleaseResponses()
				vrt.Sleep(time.Minute)
				w.client.Close()
				vrt.Sleep(10 * time.Minute)
				for _, c := range cl.WConns {
					c.Server.Stop = true
				}
			}
			u.Check = func(res *vrt.Result) *explore.Finding {
				if f := baseFinding(res); f != nil {
					return f
				}
				for i := range returned {
					if res.Deadlock || !returned[i] {
						return &explore.Finding{Class: "call-blocked-after-cancellation: " + entries[i] + " over a connection that failed while it was being sent",
							Msg: fmt.Sprintf("call %d still blocked at quiescence (cancelled at %v, faulted ops %v): %v", i, cancelAt, faulted, res.Blocked)}
					}
					if cancelAt >= 0 && retAt[i] > cancelAt+time.Second {
						return &explore.Finding{Class: "cancellation-honoured-late: " + entries[i] + " over a failed connection", Msg: fmt.Sprintf("returned %v after the context ended", retAt[i]-cancelAt)}
					}
					if e := errs[i]; e != nil && !isCtxErr(e) && !(entries[i] == "scan" && e == io.EOF) {
						return &explore.Finding{Class: "cancelled-call-returns-non-context-error", Msg: fmt.Sprintf("call %d: %v (%T); faulted ops %v", i, e, e, faulted)}
					}
				}
				if cb := clientBlocked(res); len(cb) > 0 {
					return &explore.Finding{Class: "client-thread-left-blocked", Msg: fmt.Sprintf("%v", cb)}
				}
				return nil
			}
			units = append(units, u)
		}
	}
	return units
}

// c13WireBlockedUnits (tier W): the regionserver has stopped reading (a hung process whose
// kernel still holds the connection): a request's write blocks and the region client's
// writer goroutine with it. Entries: a batch whose calls carry their own deadlines while the
// batch context stays alive (the calls wait to be handed to the busy writer), a batch with a
// deadline of its own, a batched get, and - unbatched - a get sent from the caller's own
// goroutine, which then sits in net.Conn.Write itself.
func c13WireBlockedUnits() []*explore.Unit {
	var units []*explore.Unit
	for _, entry := range []string{"batch-own-deadlines", "batch-deadline", "get-batched", "get-unbatched"} {
		entry := entry
		var returned bool
		var deadlineAt, retAt time.Duration
		var res []hrpc.RPCResult
		var err error
		u := &explore.Unit{Name: "wire|server stopped reading, writer blocked|" + entry, Bound: 1, Opt: vrt.Options{MaxSteps: 80000}}
		u.Body = func() {
			returned, res, err = false, nil, nil
			cl := sim.NewCluster("rs0:1")
			cl.AddTable("t", []string{"m"}, []string{"rs1:1"})
			w := newWorldW(cl, gohbase.FlushInterval(time.Millisecond), gohbase.RpcQueueSize(2))
			for _, key := range []string{"a", "x"} {
				g, _ := hrpc.NewGetStr(context.Background(), "t", key)
				if _, e := w.client.Get(g); e != nil {
					panic("warm-up failed: " + e.Error())
				}
			}
			var target *sim.Conn
			for _, wc := range cl.WConns {
				if wc.Addr == "rs1:1" && !wc.Conn.Closed {
					target = wc.Conn
				}
			}
			target.BlockWrites = true
			// a first request occupies the writer: its write never completes
			fctx, fcancel := vcontext.WithTimeout(context.Background(), time.Hour)
			defer fcancel()
			vrt.GoNamed("h:filler", func() {
				g, _ := hrpc.NewGetStr(fctx, "t", "b")
				w.client.Get(g)
			})
			vrt.Sleep(100 * time.Millisecond)
			ctx, cancel := vcontext.WithTimeout(context.Background(), 300*time.Millisecond)
			defer cancel()
			deadlineAt = w.now() + 300*time.Millisecond
			switch entry {
			case "batch-own-deadlines":
				a, _ := hrpc.NewGetStr(ctx, "t", "a")
				x, _ := hrpc.NewGetStr(ctx, "t", "x")
				res, _ = w.client.SendBatch(context.Background(), []hrpc.Call{a, x})
			case "batch-deadline":
				a, _ := hrpc.NewGetStr(ctx, "t", "a")
				x, _ := hrpc.NewGetStr(ctx, "t", "x")
				res, _ = w.client.SendBatch(ctx, []hrpc.Call{a, x})
			case "get-batched":
				g, _ := hrpc.NewGetStr(ctx, "t", "a")
				_, err = w.client.Get(g)
			case "get-unbatched":
				g, _ := hrpc.NewGetStr(ctx, "t", "a", hrpc.SkipBatch())
				_, err = w.client.Get(g)
			}
			returned = true
			retAt = w.now()
			target.BlockWrites = false
			fcancel()
			vrt.Sleep(time.Minute)
			w.client.Close()
			vrt.Sleep(10 * time.Minute)
			for _, c := range cl.WConns {
				c.Server.Stop = true
			}
		}
		u.Check = func(r *vrt.Result) *explore.Finding {
			where := "waiting for the busy writer of a region client"
			if entry == "get-unbatched" {
				where = "unbatched call in net.Conn.Write to a server that stopped reading"
			}
			if f := baseFinding(r); f != nil {
				return f
			}
			if r.Deadlock || !returned {
				return &explore.Finding{Class: "call-blocked-after-cancellation: " + where, Msg: fmt.Sprintf("%s: still blocked at quiescence (deadline at %v): %v", entry, deadlineAt, r.Blocked)}
			}
			if retAt > deadlineAt+time.Second {
				return &explore.Finding{Class: "cancellation-honoured-late: " + where, Msg: fmt.Sprintf("%s returned %v after its deadline", entry, retAt-deadlineAt)}
			}
			for i, rr := range res {
				if rr.Error == nil && rr.Msg == nil {
					return &explore.Finding{Class: "cancelled-batch-leaves-empty-result", Msg: fmt.Sprintf("%s res[%d]", entry, i)}
				}
			}
			if err != nil && !isCtxErr(err) {
				return &explore.Finding{Class: "cancelled-call-returns-non-context-error", Msg: fmt.Sprintf("%s: %v (%T)", entry, err, err)}
			}
			if cb := clientBlocked(r); len(cb) > 0 {
				return &explore.Finding{Class: "client-thread-left-blocked", Msg: fmt.Sprintf("%s: %v", entry, cb)}
			}
			return nil
		}
		units = append(units, u)
	}
	return units
}

func c13Units(thorough bool) []*explore.Unit {
	units := append(c13WireFaultUnits(thorough), c13WireBlockedUnits()...)
	states := []string{"zk-silent", "meta-silent", "probe-silent", "backoff", "server-silent", "reestablish", "lookup-backoff"}
	entries := []string{"get", "put", "batch-shared", "batch-own", "scan"}
	afters := []time.Duration{0, 20 * time.Millisecond, 3 * time.Second, 100 * time.Second}
	for _, st := range states {
		for _, en := range entries {
			for _, how := range []string{"cancel", "deadline"} {
				for _, af := range afters {
					if how == "deadline" && af == 0 {
						continue
					}
					p := c13Params{state: st, entry: en, how: how, after: af}
					out := &c13Obs{}
					b := 2
					if thorough {
						b = 3
					}
					if how == "deadline" {
						b = 1
						if thorough {
							b = 2
						}
					}
					units = append(units, &explore.Unit{Name: p.String(), Bound: b, Opt: vrt.Options{MaxSteps: 60000},
						Body: c13Body(p, out), Check: c13Check(p, out),
						Sig: func() string {
							return fmt.Sprintf("%s returned=%v delay=%v", errClass(out.err), out.returned, out.returnedAt-out.cancelAt)
						}})
				}
			}
		}
	}
	// the context ends at every scheduling step of the call: in each wait state and on a
	// healthy cluster ("none"), the canceller interrupts before each step of a thread running
	// client code, up to a number of steps that covers the first retry rounds of the state
	maxK := 120
	if thorough {
		maxK = 160
	}
	for _, st := range append([]string{"none"}, states...) {
		for _, en := range entries {
			probe := &c13Obs{}
			vrt.Tracing = true
			res, _ := explore.RunOnce(&explore.Unit{Opt: vrt.Options{MaxSteps: 6000},
				Body: c13Body(c13Params{state: st, entry: en, how: "cancel-at-step", step: -1}, probe)}, nil)
			vrt.Tracing = false
			var ks []int
			for i, line := range res.Trace {
				k := res.TraceSteps[i]
				if k < probe.startStep || harnessThread(strings.SplitN(line, " ", 2)[0]) {
					continue
				}
				if probe.returned && k > probe.returnedStep || len(ks) >= maxK {
					break
				}
				ks = append(ks, k)
			}
			for _, k := range ks {
				p := c13Params{state: st, entry: en, how: "cancel-at-step", step: k}
				out := &c13Obs{}
				// one further deviation; the thorough tier widens the positions a little (160 steps): its budget goes to the deeper passes of the other units
				b := 1
				units = append(units, &explore.Unit{Name: p.String(), Bound: b, Opt: vrt.Options{MaxSteps: 60000},
					Body: c13Body(p, out), Check: c13Check(p, out),
					Sig: func() string {
						return fmt.Sprintf("%s returned=%v delay=%v", errClass(out.err), out.returned, out.returnedAt-out.cancelAt)
					}})
			}
		}
	}
	units = append(units, c13QueueUnit("cancel"), c13QueueUnit("deadline"))
	return units
}

func init() {
	register(&Prop{
		ID: "C13", Level: "model_checking",
		Technique:   "stateless model checking with a freeze-the-world oracle: the client is brought into every wait state by script, the context ends at enumerated virtual instants (or under all schedules up to a deviation bound), and from that instant the environment answers nothing; the API call must return on client-internal steps alone",
		Rule:        "wait states {ZooKeeper silent, meta silent, probe unanswered, retry back-off, server silent after the request, region being re-established with meta silent, lookup back-off} x entry points {get, put, batch with shared context, batch with one call's own context, scanner} x {cancel, deadline} x 4 instants (0, 20 ms, 3 s, 100 s of virtual time), schedules with <=1 (thorough 2) deviations; plus the region client's busy send queue (writer blocked in Write) on tier R. Oracle: the call returns, with a context error, no later than 1 s of virtual time after the context ended; a batch returns with only that call failed. Non-trivial = at least one non-default scheduling choice or a non-zero instant. Additionally the context is cancelled at EVERY scheduling step of a thread running client code during the call (first 120, thorough 160, steps), in each wait state and on a healthy cluster, x every entry point (vrt.GoInterrupt: the event's thread is created waiting for that step and is the default choice there, so its position is a parameter of the unit and costs no deviation), with <=1 further deviation. Tier W: the k-th connection operation fails while two callers with their own contexts are sending directly (<=1 deviation, thorough 2), then cancel; a regionserver that stopped reading (writes blocked, the writer occupied) x {batch whose calls have their own deadlines, batch with a deadline, batched get, unbatched get}.",
		Assumptions: []string{"virtual clock: 'promptly' is measured in virtual time with the environment frozen", "an unbatched call blocked inside net.Conn.Write is explored too and is an open known finding (no write deadline)"},
		Quick:       150 * time.Second, Thorough: 45 * time.Minute,
		Units: c13Units,
	})
}
