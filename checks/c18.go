package checks

import (
	"context"
	"fmt"
	"strings"
	"time"

	"github.com/tsuna/gohbase/hrpc"

	"verif/explore"
	"verif/sim"
	"verif/vrt"
)

// C18: silent servers are detected within the read timeout; idle connections are left alone.

type c18Params struct {
	mix       string
	calls     []callSpec
	cfg       rigCfg
	srvMode   string // all | none | first | notfirst
	cancelMid int    // index of a call whose context is cancelled by a concurrent thread (-1 none)
}

type c18Obs struct {
	errs       []error
	doneAt     []time.Duration
	got        []bool
	lastSend   time.Duration
	frames     int
	answered   int
	closedIdle bool   // connection torn down during the idle period
	rdlArmed   bool   // read deadline armed at the end of the idle period
	afterErr   error  // result of a further request after the idle period
	afterTried bool
	idleStart  time.Duration
	closedAt   time.Duration
	readTO     time.Duration
	r          *rig
}

func c18Body(p c18Params, out *c18Obs) func() {
	return func() {
		*out = c18Obs{readTO: 30 * time.Second, closedAt: -1}
		cfg := p.cfg
		cfg.ReadTO = out.readTO
		r := newRig(cfg)
		out.r = r
		epoch := vrt.Now()
		now := func() time.Duration { return vrt.Now().Sub(epoch) }
		r.conn.OnClose = func() { out.closedAt = now() }
		n := len(p.calls)
		calls := make([]hrpc.Call, n)
		cancels := make([]context.CancelFunc, n)
		for i, s := range p.calls {
			calls[i], cancels[i] = r.mkCall(s)
		}
		out.errs = make([]error, n)
		out.doneAt = make([]time.Duration, n)
		out.got = make([]bool, n)
		r.srv.OnFrame = func(s *sim.Server, f *sim.Frame) {
			out.frames++
			out.lastSend = now()
			ans := false
			switch p.srvMode {
			case "all":
				ans = true
			case "first":
				ans = out.frames == 1
			case "notfirst":
				ans = out.frames > 1
			}
			if ans {
				out.answered++
				resp, cells := answer(f)
				s.Send(sim.EncodeResponse(f.Header.GetCallId(), resp, nil, cells))
			}
		}
		if err := r.rc.Dial(context.Background()); err != nil {
			panic(err)
		}
		vrt.GoNamed("h:server", r.srv.Run)
		fin := make(chan int, n+1)
		for i := range calls {
			i := i
			vrt.GoNamed(fmt.Sprintf("h:caller%d", i), func() {
				r.rc.QueueRPC(calls[i])
				var sel vrt.Select
				slot := vrt.AddRecv(&sel, calls[i].ResultChan())
				vrt.AddRecv(&sel, calls[i].Context().Done())
				if sel.Wait() == 0 {
					out.got[i] = true
					out.errs[i] = slot.V.Error
				} else {
					out.errs[i] = calls[i].Context().Err()
				}
				out.doneAt[i] = now()
				vrt.Send(fin, i)
			})
		}
		if p.cancelMid >= 0 {
			vrt.GoNamed("h:canceller", func() { cancels[p.cancelMid](); vrt.Send(fin, -1) })
			vrt.Recv(fin)
		}
		for i := 0; i < n; i++ {
			vrt.Recv(fin)
		}
		out.idleStart = now()
		// idle for several read time-outs
		vrt.Sleep(5 * out.readTO)
		out.closedIdle = r.conn.Closed
		out.rdlArmed = !r.conn.RDL.IsZero()
		if !r.conn.Closed {
			out.afterTried = true
			g, _ := r.mkCall(callSpec{Kind: "get", Key: "after", SkipBatch: true})
			prev := p.srvMode
			p.srvMode = "all"
			r.rc.QueueRPC(g)
			res := vrt.Recv(g.ResultChan())
			out.afterErr = res.Error
			p.srvMode = prev
			vrt.Sleep(2 * out.readTO)
			if r.conn.Closed {
				out.closedIdle = true
			}
		}
		r.rc.Close()
		vrt.Sleep(time.Minute)
		r.srv.Stop = true
	}
}

func c18Check(p c18Params, out *c18Obs) func(res *vrt.Result) *explore.Finding {
	return func(res *vrt.Result) *explore.Finding {
		if f := baseFinding(res); f != nil {
			return f
		}
		ctx := fmt.Sprintf("mix=%s srv=%s cancelMid=%d frames=%d answered=%d lastSend=%v closedAt=%v idleStart=%v errs=%v doneAt=%v",
			p.mix, p.srvMode, p.cancelMid, out.frames, out.answered, out.lastSend, out.closedAt, out.idleStart, out.errs, out.doneAt)
		if out.r != nil && len(out.r.srv.Errors) > 0 {
			// the byte stream was corrupt (frames of concurrent senders interleaved on a
			// non-TCP connection) and the server dropped the connection: judged by C05, not here
			return nil
		}
		if res.Deadlock {
			return &explore.Finding{Class: "request-never-failed-over (silent server not detected)", Msg: fmt.Sprintf("blocked=%v\n%s", res.Blocked, ctx)}
		}
		outstanding := out.frames > out.answered // something was sent and never answered
		if outstanding {
			// the connection must have been torn down within readTimeout of the last send
			if out.closedAt < 0 || out.closedAt > out.lastSend+out.readTO {
				return &explore.Finding{Class: "silent-server-detected-late-or-never",
					Msg: fmt.Sprintf("unanswered requests outstanding but the connection was failed at %v (last send %v + timeout %v)\n%s", out.closedAt, out.lastSend, out.readTO, ctx)}
			}
			for i := range out.errs {
				if out.got[i] && out.errs[i] != nil && errClass(out.errs[i]) != "ServerError" {
					return &explore.Finding{Class: "unanswered-call-wrong-error-class", Msg: ctx}
				}
				if out.doneAt[i] > out.lastSend+out.readTO {
					return &explore.Finding{Class: "silent-server-detected-late-or-never", Msg: fmt.Sprintf("call %d returned at %v\n%s", i, out.doneAt[i], ctx)}
				}
			}
			return nil
		}
		// nothing outstanding: the connection must survive the idle period and work afterwards
		if out.closedIdle {
			return &explore.Finding{Class: "idle-connection-torn-down",
				Msg: fmt.Sprintf("every request sent was answered, yet the connection was closed at %v (idle since %v)\n%s", out.closedAt, out.idleStart, ctx)}
		}
		if out.afterTried && out.afterErr != nil {
			return &explore.Finding{Class: "connection-unusable-after-idle", Msg: fmt.Sprintf("%v\n%s", out.afterErr, ctx)}
		}
		for i := range out.errs {
			if out.got[i] && out.errs[i] != nil {
				return &explore.Finding{Class: "answered-call-failed", Msg: fmt.Sprintf("call %d: %v\n%s", i, out.errs[i], ctx)}
			}
		}
		if cb := clientBlocked(res); len(cb) > 0 {
			return &explore.Finding{Class: "client-thread-left-blocked", Msg: fmt.Sprintf("%v\n%s", cb, ctx)}
		}
		return nil
	}
}

func c18Units(thorough bool) []*explore.Unit {
	type mix struct {
		name  string
		calls []callSpec
		cfg   rigCfg
		canc  int
	}
	mixes := []mix{
		{"1direct", []callSpec{{Kind: "get", Key: "k0", SkipBatch: true}}, rigCfg{QueueSize: 1}, -1},
		{"2direct", []callSpec{{Kind: "get", Key: "k0", SkipBatch: true}, {Kind: "put", Key: "k1", SkipBatch: true}}, rigCfg{QueueSize: 1}, -1},
		{"multi2", []callSpec{{Kind: "get", Key: "k0"}, {Kind: "get", Key: "k1"}}, rigCfg{QueueSize: 2}, -1},
		{"direct+cancelled-midflight", []callSpec{{Kind: "get", Key: "k0", SkipBatch: true}, {Kind: "get", Key: "k1", SkipBatch: true}}, rigCfg{QueueSize: 1}, 1},
		{"1cancelled-midflight", []callSpec{{Kind: "get", Key: "k0", SkipBatch: true}}, rigCfg{QueueSize: 1}, 0},
	}
	{
		mixes = append(mixes,
			mix{"multi2+direct", []callSpec{{Kind: "get", Key: "k0"}, {Kind: "put", Key: "k1"}, {Kind: "get", Key: "k2", SkipBatch: true}}, rigCfg{QueueSize: 2}, -1},
			mix{"multi-timer+cancel", []callSpec{{Kind: "get", Key: "k0"}, {Kind: "get", Key: "k1"}}, rigCfg{QueueSize: 3, Flush: 10 * time.Millisecond}, 0})
	}
	var units []*explore.Unit
	for _, m := range mixes {
		for _, mode := range []string{"all", "none", "first", "notfirst"} {
			p := c18Params{mix: m.name, calls: m.calls, cfg: m.cfg, srvMode: mode, cancelMid: m.canc}
			out := &c18Obs{}
			units = append(units, &explore.Unit{
				Name: fmt.Sprintf("%s|srv=%s", m.name, mode), Bound: c18Bound(thorough, len(m.calls)), Opt: vrt.Options{MaxSteps: 20000},
				Body: c18Body(p, out), Check: c18Check(p, out),
				Sig: func() string {
					var sb strings.Builder
					for i := range out.errs {
						fmt.Fprintf(&sb, "%s@%v/", errClass(out.errs[i]), out.doneAt[i])
					}
					fmt.Fprintf(&sb, "closed=%v armed=%v after=%s", out.closedAt, out.rdlArmed, errClass(out.afterErr))
					return sb.String()
				},
			})
		}
	}
	return units
}

func init() {
	register(&Prop{
		ID: "C18", Level: "model_checking",
		Technique: "stateless model checking of the real region client on a virtual clock: all schedules up to 2 deviations x server answer patterns, then an idle period of several read time-outs",
		Rule: "units = call mix (direct, multi, cancelled in flight) x server answers {all, none, first only, all but first}; every schedule with <=2 deviations (including the response being processed before the sender has counted the request); then 5 read time-outs of idleness on the virtual clock and one further request. Oracle: unanswered => connection failed no later than last send + readTimeout; all answered => never torn down, works afterwards. Non-trivial = at least one non-default choice.",
		Assumptions: []string{"virtual clock; timers fire at quiescence", "scheduling points as in C03"},
		Quick:       100 * time.Second, Thorough: 15 * time.Minute,
		Units: c18Units,
	})
}

func c18Bound(thorough bool, calls int) int {
	if thorough && calls <= 1 {
		return 4
	}
	if thorough && calls <= 2 {
		return 3
	}
	return 2
}
