package checks

import (
	"context"
	"fmt"
	"net"
	"strings"
	"time"

	"github.com/tsuna/gohbase/compression"
	"github.com/tsuna/gohbase/hrpc"
	"github.com/tsuna/gohbase/pb"
	"github.com/tsuna/gohbase/region"
	"google.golang.org/protobuf/proto"

	"verif/explore"
	"verif/sim"
	"verif/vrt"
)

// ---------------------------------------------------------------------------
// Tier R: the real region.client over a simulated connection with a scripted
// regionserver thread.

type callSpec struct {
	Kind      string // get | put | inc
	Key       string
	SkipBatch bool
	Cancelled bool // context already cancelled before the call is queued
}

type rigCfg struct {
	QueueSize int
	Flush     time.Duration
	ReadTO    time.Duration
	Codec     compression.Codec
	MaxRead   int
	Faults    []sim.Fault
}

type rig struct {
	conn   *sim.Conn
	rc     hrpc.RegionClient
	reg    hrpc.RegionInfo
	srv    *sim.Server
	dialErr error
}

func newRig(cfg rigCfg) *rig {
	if cfg.ReadTO == 0 {
		cfg.ReadTO = 30 * time.Second
	}
	if cfg.QueueSize == 0 {
		cfg.QueueSize = 1
	}
	r := &rig{}
	r.conn = &sim.Conn{Name: "rs1:16020", Faults: cfg.Faults, MaxRead: cfg.MaxRead}
	dial := func(ctx context.Context, network, addr string) (net.Conn, error) { return r.conn, nil }
	r.rc = region.NewClient("rs1:16020", region.RegionClient, cfg.QueueSize, cfg.Flush, "root", cfg.ReadTO, cfg.Codec, dial, quietLogger)
	r.reg = region.NewInfo(1, nil, []byte("t"), []byte("t,,1"), nil, nil)
	r.srv = &sim.Server{Conn: r.conn}
	return r
}

func payload(key []byte) []byte { return append([]byte("v:"), key...) }

func (r *rig) mkCall(s callSpec) (hrpc.Call, context.CancelFunc) {
	ctx, cancel := context.WithCancel(context.Background())
	var opts []func(hrpc.Call) error
	if s.SkipBatch {
		opts = append(opts, hrpc.SkipBatch())
	}
	var c hrpc.Call
	var err error
	switch s.Kind {
	case "get":
		c, err = hrpc.NewGetStr(ctx, "t", s.Key, opts...)
	case "put":
		c, err = hrpc.NewPutStr(ctx, "t", s.Key, map[string]map[string][]byte{"f": {"q": payload([]byte(s.Key))}}, opts...)
	default:
		panic("unknown call kind " + s.Kind)
	}
	if err != nil {
		panic(err)
	}
	c.SetRegion(r.reg)
	if s.Cancelled {
		cancel()
	}
	return c, cancel
}

// answer builds the regular response for one request frame: gets return one
// cell whose value is derived from the row key, mutations return processed=true.
func answer(f *sim.Frame) (proto.Message, []sim.KV) {
	cell := func(row []byte) sim.KV {
		return sim.KV{Row: row, Family: []byte("f"), Qualifier: []byte("q"), Value: payload(row), TS: 7, Type: 4}
	}
	switch req := f.Req.(type) {
	case *pb.GetRequest:
		if req.GetGet().GetExistenceOnly() {
			return &pb.GetResponse{Result: &pb.Result{Exists: proto.Bool(true)}}, nil
		}
		return &pb.GetResponse{Result: &pb.Result{AssociatedCellCount: proto.Int32(1)}}, []sim.KV{cell(req.GetGet().GetRow())}
	case *pb.MutateRequest:
		return &pb.MutateResponse{Processed: proto.Bool(true)}, nil
	case *pb.MultiRequest:
		mr := &pb.MultiResponse{}
		var cells []sim.KV
		for _, ra := range req.RegionAction {
			rar := &pb.RegionActionResult{}
			for _, a := range ra.Action {
				if a.Get != nil {
					rar.ResultOrException = append(rar.ResultOrException, &pb.ResultOrException{Index: a.Index,
						Result: &pb.Result{AssociatedCellCount: proto.Int32(1)}})
					cells = append(cells, cell(a.Get.GetRow()))
				} else {
					rar.ResultOrException = append(rar.ResultOrException, &pb.ResultOrException{Index: a.Index, Result: &pb.Result{}})
				}
			}
			mr.RegionActionResult = append(mr.RegionActionResult, rar)
		}
		return mr, cells
	case *pb.ScanRequest:
		return &pb.ScanResponse{MoreResults: proto.Bool(false)}, nil
	}
	return nil, nil
}

// harnessThread reports whether a blocked-thread description belongs to the harness.
func harnessThread(desc string) bool {
	i := strings.IndexByte(desc, ':')
	return i >= 0 && strings.HasPrefix(desc[i+1:], "h:")
}

// clientBlocked returns the blocked threads that belong to the code under test.
func clientBlocked(res *vrt.Result) []string {
	var out []string
	for _, b := range res.Blocked {
		if !harnessThread(b) {
			out = append(out, b)
		}
	}
	return out
}

// baseFinding reports the outcomes every scenario treats as violations:
// a panic in any thread, or the step horizon (livelock / hot loop).
func baseFinding(res *vrt.Result) *explore.Finding {
	if len(res.Panics) > 0 {
		p := res.Panics[0]
		first := p
		if i := strings.IndexByte(p, '\n'); i > 0 {
			first = p[:i]
		}
		return &explore.Finding{Class: "panic: " + panicSite(p), Msg: first + "\n" + trimStack(p)}
	}
	if res.HorizonHit {
		return &explore.Finding{Class: "step-horizon-exceeded (livelock or hot loop)", Msg: fmt.Sprintf("blocked=%v now=%v", res.Blocked, res.Now)}
	}
	return nil
}

// panicSite extracts "file.go:func" of the first gohbase frame of a panic stack.
func panicSite(p string) string {
	lines := strings.Split(p, "\n")
	for i, l := range lines {
		if strings.HasPrefix(l, "github.com/tsuna/gohbase") && !strings.Contains(l, "zz_verif") && i+1 < len(lines) {
			fn := l
			if j := strings.LastIndexByte(fn, '('); j > 0 {
				fn = fn[:j]
			}
			fn = strings.TrimPrefix(fn, "github.com/tsuna/gohbase")
			return strings.TrimPrefix(fn, "/")
		}
	}
	return "unknown"
}

func trimStack(p string) string {
	lines := strings.Split(p, "\n")
	var out []string
	for _, l := range lines {
		if strings.Contains(l, "tsuna/gohbase") || strings.Contains(l, "/repo/") || strings.Contains(l, "instr/") {
			out = append(out, l)
		}
		if len(out) > 16 {
			break
		}
	}
	return strings.Join(out, "\n")
}

func errClass(err error) string {
	switch err.(type) {
	case nil:
		return "ok"
	case region.ServerError:
		return "ServerError"
	case region.RetryableError:
		return "RetryableError"
	case region.NotServingRegionError:
		return "NotServingRegionError"
	}
	if err == context.Canceled {
		return "ctx.Canceled"
	}
	if err == context.DeadlineExceeded {
		return "ctx.DeadlineExceeded"
	}
	return fmt.Sprintf("other(%T)", err)
}
