package checks

import (
	"context"
	"fmt"
	"strings"
	"time"

	"github.com/tsuna/gohbase/hrpc"
	"github.com/tsuna/gohbase/pb"

	"verif/explore"
	"verif/sim"
	"verif/vrt"
)

// C07: batch results are positional and self-consistent.
// C12: a batch executes each call once, in per-region order, or not at all.
// Both use the same batch harness; C07 judges what SendBatch returns, C12 what
// reached the servers.

var outcomeClass = map[byte]string{
	'S': "",                // success
	'F': sim.ClsApp,        // fatal (non-retryable)
	'R': sim.ClsCallQueue,  // retry after back-off
	'N': sim.ClsNSRE,       // region not serving: re-locate
	'D': sim.ClsServerStop, // connection dead
}

type batchParams struct {
	layout  string   // spread | coloc
	keys    []string // one call per key, in batch order
	kinds   []string // get | put | inc per call
	scripts []string // per call: outcome letters for its successive attempts (then success)
	// environment event positioned after the evAfter-th user operation reached a server
	event   string // "", cancel, droptable, meta-silent+cancel, close
	evAfter int
	evStep  int // > 0: the event interrupts at this scheduling step instead (-1: never, probe run)
	// pre: "merge" - the regions of all keys are located first (warm cache), then the two
	// regions of the table are merged, then the batch is sent: every call is refused once
	// and re-located into ONE region, whatever connection it went over in the first round
	pre string
	ownCtx  int // index of a call that has its own context, cancelled by the event "cancel-call" (-1: none)
}

func (p batchParams) String() string {
	if p.evStep != 0 {
		return fmt.Sprintf("%s|keys=%v|kinds=%v|scripts=%v|event=%s at step %d|ownctx=%d", p.layout, p.keys, p.kinds, p.scripts, p.event, p.evStep, p.ownCtx)
	}
	if p.pre != "" {
		return fmt.Sprintf("%s|keys=%v|kinds=%v|scripts=%v|pre=%s|ownctx=%d", p.layout, p.keys, p.kinds, p.scripts, p.pre, p.ownCtx)
	}
	return fmt.Sprintf("%s|keys=%v|kinds=%v|scripts=%v|event=%s@%d|ownctx=%d", p.layout, p.keys, p.kinds, p.scripts, p.event, p.evAfter, p.ownCtx)
}

type batchObs struct {
	res                []hrpc.RPCResult
	ok                 bool
	calls              []hrpc.Call
	w                  *world
	done               bool
	evDone             bool
	returnedAt         time.Duration
	eventAt            time.Duration
	userOps            int
	startStep, endStep int
}

func userAttempts(cl *sim.Cluster) int {
	n := 0
	for _, a := range cl.Attempts {
		if a.Kind != "exists" && a.Kind != "metascan" {
			n++
		}
	}
	return n
}

func batchBody(p batchParams, out *batchObs) func() {
	return func() {
		*out = batchObs{}
		cl := stdCluster()
		if p.layout == "coloc" {
			cl = sim.NewCluster("rs0:1")
			cl.AddTable("t", []string{"m"}, []string{"rs1:1"})
		}
		if p.pre == "two-merges" {
			// five regions; [b,c)+[c,d) and [d,e)+[e,) are merged after the client has located
			// [,b) [b,c) and [d,e); two single gets locate the merged regions concurrently
			cl = sim.NewCluster("rs0:1")
			cl.AddTable("t", []string{"b", "c", "d", "e"}, []string{"rs1:1", "rs2:1"})
		}
		w := newWorld(cl)
		out.w = w
		ctx, cancel := context.WithCancel(context.Background())
		defer cancel()
		n := len(p.keys)
		out.calls = make([]hrpc.Call, n)
		var ownCancel context.CancelFunc
		for i, k := range p.keys {
			cctx := ctx
			if i == p.ownCtx {
				cctx, ownCancel = context.WithCancel(context.Background())
			}
			switch p.kinds[i] {
			case "put":
				out.calls[i], _ = hrpc.NewPutStr(cctx, "t", k, map[string]map[string][]byte{"f": {"q": []byte("v")}})
			case "inc":
				out.calls[i], _ = hrpc.NewIncStrSingle(cctx, "t", k, "f", "q", 1)
			default:
				out.calls[i], _ = hrpc.NewGetStr(cctx, "t", k)
			}
			for _, c := range []byte(p.scripts[i]) {
				cl.KeyScript[k] = append(cl.KeyScript[k], outcomeClass[c])
			}
		}
		if p.pre == "two-merges" {
			for _, k := range []string{"a1", "b1", "d1"} {
				g, _ := hrpc.NewGetStr(context.Background(), "t", k)
				if _, err := w.client.Get(g); err != nil {
					panic("warm-up failed: " + err.Error())
				}
			}
			r1, r2 := cl.Owner("t", []byte("b1")), cl.Owner("t", []byte("c5"))
			cl.Merge(r1, r2, r2.Server)
			r3, r4 := cl.Owner("t", []byte("d1")), cl.Owner("t", []byte("e5"))
			cl.Merge(r3, r4, r3.Server)
			for _, k := range []string{"c5", "e5"} {
				k := k
				vrt.GoNamed("h:getter-"+k, func() {
					g, _ := hrpc.NewGetStr(context.Background(), "t", k)
					w.client.Get(g)
				})
			}
		}
		if p.pre == "connlost-half" {
			// only the first region is known; its connection has been closed by the server
			// without the client having noticed yet (nothing was in flight)
			g, _ := hrpc.NewGetStr(context.Background(), "t", "a")
			if _, err := w.client.Get(g); err != nil {
				panic("warm-up failed: " + err.Error())
			}
			cl.ResetConns(cl.Owner("t", []byte("a")).Server)
		}
		if p.pre == "merge" || p.pre == "merge-half" {
			for _, k := range p.keys {
				if p.pre == "merge-half" && k >= "m" {
					continue // only the first region is known to the client
				}
				g, _ := hrpc.NewGetStr(context.Background(), "t", k)
				if _, err := w.client.Get(g); err != nil {
					panic("warm-up failed: " + err.Error())
				}
			}
			ra, rb := cl.Owner("t", []byte("a")), cl.Owner("t", []byte("x"))
			cl.Merge(ra, rb, rb.Server)
		}
		if p.event != "" {
			late := false
			tm := vrt.AfterFunc(time.Hour, func() { late = true })
			spawn := vrt.GoNamed
			if p.evStep != 0 {
				spawn = func(name string, f func()) {
					vrt.GoInterrupt(name, func() bool { return late || out.done || (p.evStep > 0 && vrt.Steps() >= p.evStep) }, f)
				}
			}
			spawn("h:event", func() {
				if p.evStep == 0 {
					vrt.Await("h:event-trigger", func() bool { return late || out.done || userAttempts(cl) >= p.evAfter })
				}
				tm.Stop()
				out.eventAt = w.now()
				switch p.event {
				case "cancel":
					cancel()
				case "cancel-call":
					if ownCancel != nil {
						ownCancel()
					}
				case "droptable":
					cl.DropTable("t")
				case "meta-silent+cancel":
					cl.Silent[cl.MetaAddr] = true
					vrt.Sleep(5 * time.Second)
					cancel()
				case "close":
					w.client.Close()
				}
				out.evDone = true
			})
		}
		out.startStep = vrt.Steps()
		out.res, out.ok = w.client.SendBatch(ctx, out.calls)
		out.endStep = vrt.Steps()
		out.done = true
		out.returnedAt = w.now()
		out.userOps = userAttempts(cl)
		vrt.Sleep(time.Minute)
		cl.Silent = map[string]bool{}
		w.client.Close()
		vrt.Sleep(10 * time.Minute)
	}
}

func payloadOK(kind, key string, msg any) bool {
	switch kind {
	case "get":
		g, ok := msg.(*pb.GetResponse)
		return ok && len(g.GetResult().GetCell()) == 1 && string(g.GetResult().GetCell()[0].Value) == "v:"+key && string(g.GetResult().GetCell()[0].Row) == key
	case "inc":
		m, ok := msg.(*pb.MutateResponse)
		return ok && len(m.GetResult().GetCell()) == 1 && string(m.GetResult().GetCell()[0].Row) == key
	default:
		_, ok := msg.(*pb.MutateResponse)
		return ok
	}
}

func c07Check(p batchParams, out *batchObs) func(res *vrt.Result) *explore.Finding {
	return func(res *vrt.Result) *explore.Finding {
		if f := baseFinding(res); f != nil {
			if strings.HasPrefix(f.Class, "step-horizon") {
				f.Class = "batch-never-returns (retries without end)"
			}
			f.Msg += "\n" + p.String()
			return f
		}
		if res.Deadlock {
			return &explore.Finding{Class: "batch-blocked-forever", Msg: fmt.Sprintf("blocked=%v\n%s", res.Blocked, p)}
		}
		if len(out.res) != len(p.keys) {
			return &explore.Finding{Class: "wrong-number-of-results", Msg: fmt.Sprintf("%d results for %d calls\n%s", len(out.res), len(p.keys), p)}
		}
		cl := out.w.cl
		allNil := true
		for i, k := range p.keys {
			rr := out.res[i]
			// did a server execute call i successfully?
			succeeded := cl.ExecCount(out.calls[i]) > 0
			describe := func() string {
				var sb strings.Builder
				for j := range out.res {
					fmt.Fprintf(&sb, "\n  res[%d] (%s %s): msg=%v err=%v executed=%d", j, p.kinds[j], p.keys[j], out.res[j].Msg != nil, out.res[j].Error, cl.ExecCount(out.calls[j]))
				}
				return sb.String() + "\n" + p.String()
			}
			if rr.Error != nil {
				allNil = false
			}
			if rr.Msg == nil && rr.Error == nil {
				return &explore.Finding{Class: "result-has-neither-response-nor-error", Msg: fmt.Sprintf("res[%d]%s", i, describe())}
			}
			if rr.Msg != nil && rr.Error != nil {
				return &explore.Finding{Class: "result-mixes-response-and-error", Msg: fmt.Sprintf("res[%d] carries a response AND the error %q%s", i, rr.Error, describe())}
			}
			if succeeded && rr.Error != nil {
				return &explore.Finding{Class: "succeeded-call-reported-as-failed", Msg: fmt.Sprintf("call %d was executed successfully by a server but res[%d].Error = %q%s", i, i, rr.Error, describe())}
			}
			if rr.Error == nil {
				if !succeeded {
					return &explore.Finding{Class: "unexecuted-call-reported-as-success", Msg: fmt.Sprintf("res[%d]%s", i, describe())}
				}
				if !payloadOK(p.kinds[i], k, rr.Msg) {
					return &explore.Finding{Class: "result-is-another-calls-response", Msg: fmt.Sprintf("res[%d] = %v is not the response to %s %q%s", i, rr.Msg, p.kinds[i], k, describe())}
				}
				continue
			}
			// an error of its own: a scripted exception names the row it was produced for
			if es := rr.Error.Error(); strings.Contains(es, "scripted outcome for row ") && !strings.Contains(es, "scripted outcome for row "+k) {
				return &explore.Finding{Class: "result-is-another-calls-error", Msg: fmt.Sprintf("res[%d] (%s) = %q%s", i, k, es, describe())}
			}
		}
		if out.ok != allNil {
			return &explore.Finding{Class: "success-flag-disagrees-with-results", Msg: fmt.Sprintf("allOK=%v but (every error nil)=%v\n%s", out.ok, allNil, p)}
		}
		if cb := clientBlocked(res); len(cb) > 0 {
			return &explore.Finding{Class: "client-thread-left-after-close", Msg: fmt.Sprintf("%v\n%s", cb, p)}
		}
		return nil
	}
}

func batchSig(out *batchObs) func() string {
	return func() string {
		var sb strings.Builder
		for _, r := range out.res {
			sb.WriteString(errClass(r.Error) + "/")
		}
		fmt.Fprintf(&sb, "ok=%v", out.ok)
		return sb.String()
	}
}

func seqsUpTo(n int) []string {
	out := []string{""}
	prev := []string{""}
	for l := 1; l <= n; l++ {
		var cur []string
		for _, p := range prev {
			for _, c := range "FRND" { // a success ends the sequence
				cur = append(cur, p+string(c))
			}
		}
		// sequences end at the first F; drop continuations after F
		var keep []string
		for _, s := range cur {
			if i := strings.IndexByte(s, 'F'); i >= 0 && i != len(s)-1 {
				continue
			}
			keep = append(keep, s)
		}
		out = append(out, keep...)
		prev = keep
	}
	return out
}

func batchConfigs(thorough bool) []batchParams {
	var ps []batchParams
	seq2 := seqsUpTo(2)
	seq1 := seqsUpTo(1)
	type ev struct {
		name string
		at   []int
	}
	events := []ev{{"", []int{0}}, {"cancel", []int{0, 1, 2, 3}}, {"droptable", []int{1, 2}}, {"meta-silent+cancel", []int{1, 2}}, {"close", []int{1, 2}}}
	for _, layout := range []string{"spread", "coloc"} {
		// two calls, two regions: every pair of outcome sequences of length <= 2
		for _, s0 := range seq2 {
			for _, s1 := range seq2 {
				for _, e := range events {
					if e.name != "" && (s0 == "" && s1 == "") && !thorough {
						continue
					}
					for _, at := range e.at {
						if !thorough && e.name != "" && e.name != "cancel" && (len(s0)+len(s1)) > 2 {
							continue
						}
						ps = append(ps, batchParams{layout: layout, keys: []string{"a", "x"}, kinds: []string{"get", "inc"}, scripts: []string{s0, s1}, event: e.name, evAfter: at, ownCtx: -1})
					}
				}
			}
		}
		// three calls, two of them in the same region
		seqs := seq1
		if thorough {
			seqs = seq2
		}
		for _, s0 := range seqs {
			for _, s1 := range seqs {
				for _, s2 := range seq1 {
					for _, e := range events[:3] {
						for _, at := range e.at[:1+len(e.at)/2] {
							ps = append(ps, batchParams{layout: layout, keys: []string{"a", "b", "x"}, kinds: []string{"inc", "get", "put"}, scripts: []string{s0, s1, s2}, event: e.name, evAfter: at, ownCtx: -1})
						}
					}
				}
			}
		}
		// single call
		for _, s0 := range seqsUpTo(3) {
			ps = append(ps, batchParams{layout: layout, keys: []string{"a"}, kinds: []string{"get"}, scripts: []string{s0}, ownCtx: -1})
		}
	}
	return ps
}

func c07Units(thorough bool) []*explore.Unit {
	var units []*explore.Unit
	for _, p := range batchConfigs(thorough) {
		p := p
		out := &batchObs{}
		b := 0
		if p.event == "cancel" || p.event == "close" {
			b = 1
			// short scripts: also the second deviation (e.g. a ready select case not taken first)
			if n := len(strings.Join(p.scripts, "")); p.event == "cancel" && n == 1 && len(p.keys) == 2 && p.layout == "spread" && p.evAfter >= 2 {
				b = 2
			}
		}
		if thorough && p.event != "" {
			b = 1
			// the second deviation where the state space allows it to complete
			if n := len(strings.Join(p.scripts, "")); len(p.keys) <= 2 && (n <= 2 || (n <= 3 && (p.event == "cancel" || p.event == "close"))) {
				b = 2
			}
		}
		units = append(units, &explore.Unit{Name: p.String(), Bound: b, Opt: vrt.Options{MaxSteps: 60000},
			Body: batchBody(p, out), Check: c07Check(p, out), Sig: batchSig(out)})
	}
	return append(units, batchStepUnits(thorough, c07Check)...)
}

// batchStepUnits: the batch context is cancelled, or the client closed, at every scheduling
// step of a thread running client code between the start and the return of SendBatch
// (vrt.GoInterrupt: the position of the event is a parameter, not a deviation), for the
// two-call batches whose outcome scripts have at most two letters in total.
func batchStepUnits(thorough bool, check func(batchParams, *batchObs) func(*vrt.Result) *explore.Finding) []*explore.Unit {
	var units []*explore.Unit
	seq2 := seqsUpTo(2)
	for _, layout := range []string{"spread", "coloc"} {
		for _, s0 := range seq2 {
			for _, s1 := range seq2 {
				n := len(s0) + len(s1)
				if n > 2 && !thorough {
					continue
				}
				for _, ev := range []string{"cancel", "close"} {
					base := batchParams{layout: layout, keys: []string{"a", "x"}, kinds: []string{"get", "inc"}, scripts: []string{s0, s1}, event: ev, evStep: -1, ownCtx: -1}
					probe := &batchObs{}
					vrt.Tracing = true
					res, _ := explore.RunOnce(&explore.Unit{Opt: vrt.Options{MaxSteps: 60000}, Body: batchBody(base, probe)}, nil)
					vrt.Tracing = false
					for i, line := range res.Trace {
						k := res.TraceSteps[i]
						if k <= probe.startStep || harnessThread(strings.SplitN(line, " ", 2)[0]) {
							continue
						}
						if k > probe.endStep {
							break
						}
						p := base
						p.evStep = k
						out := &batchObs{}
						b := 0
						if thorough && n <= 2 {
							b = 1
						}
						units = append(units, &explore.Unit{Name: p.String(), Bound: b, Opt: vrt.Options{MaxSteps: 60000},
							Body: batchBody(p, out), Check: check(p, out), Sig: batchSig(out)})
					}
				}
			}
		}
	}
	return units
}

func init() {
	register(&Prop{
		ID: "C07", Level: "model_checking",
		Technique:   "stateless model checking of SendBatch on the real client over a simulated cluster: every per-call outcome script x re-location / cancellation event x event position x schedules up to a deviation bound",
		Rule:        "units = layout {two servers, one shared connection} x batch {1, 2 (two regions), 3 calls (two in one region)} x per-call outcome sequence over {fatal, retry-later, not-serving, connection-dead}* then success (all sequences of length <=2 for two calls, <=1-2 for three, <=3 for one) x event {none, cancel, table dropped (re-location fails), meta silent then cancel (re-location blocks), client closed} fired after the k-th user operation reached a server; schedules with <=1 (thorough 2) deviations where an event thread exists. Oracle: res[i] describes call i only - a call some server executed has its own payload and nil error, no result mixes a response with an error or carries another call's scripted error, every result is non-empty, allOK iff all errors are nil. Non-trivial = non-empty scripts or events. Additionally cancel / Close at EVERY scheduling step of a thread running client code inside SendBatch for the two-call batches with <=2 script letters in total (thorough: all) (vrt.GoInterrupt: the event's thread is created waiting for that step and is the default choice there, so its position is a parameter of the unit and costs no deviation).",
		Assumptions: []string{"tier L: simulated region clients deliver results per call as the real multi does"},
		Quick:       150 * time.Second, Thorough: 25 * time.Minute,
		Units: c07Units,
	})
}
