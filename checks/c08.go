package checks

import (
	"fmt"
	"sort"
	"strings"
	"time"

	"verif/explore"
	"verif/vrt"

	"github.com/tsuna/gohbase"
	"github.com/tsuna/gohbase/hrpc"
	"github.com/tsuna/gohbase/region"
)

// C08: explicit-state breadth-first search over the real location cache.
// State  = canonical (sorted) set of cached regions of a small universe.
// Moves  = put(r) / del(r) for every region r of the universe, executed on a
//          real cache rebuilt by replaying the shortest path to the state.
// Oracle = interval model + the no-overlap invariant in every state.

type uRegion struct {
	table       string
	start, stop string // "" = unbounded
	id          uint64
}

func (u uRegion) name() []byte {
	h := 0
	for _, c := range []byte(u.start + "|" + u.stop) {
		h = h*31 + int(c)
	}
	return []byte(fmt.Sprintf("%s,%s,%d.%08x.", u.table, u.start, u.id, uint32(h)))
}
func (u uRegion) mk() hrpc.RegionInfo {
	var ns []byte
	tb := []byte(u.table)
	if i := strings.IndexByte(u.table, ':'); i >= 0 {
		ns, tb = []byte(u.table[:i]), []byte(u.table[i+1:])
	}
	return region.NewInfo(u.id, ns, tb, u.name(), []byte(u.start), []byte(u.stop))
}
func (a uRegion) intersects(b uRegion) bool {
	if a.table != b.table {
		return false
	}
	return (b.stop == "" || a.start < b.stop) && (a.stop == "" || b.start < a.stop)
}
func (u uRegion) String() string { return fmt.Sprintf("%s[%q,%q)#%d", u.table, u.start, u.stop, u.id) }

func c08Universe(bounds []string, bounds2 []string, ids []uint64, tables [2]string) []uRegion {
	if tables[0] == "" {
		tables = [2]string{"t", "t1"}
	}
	var out []uRegion
	add := func(table string, bs []string) {
		pts := append([]string{""}, bs...) // start points; "" = -inf
		for i := 0; i < len(pts); i++ {
			for j := i + 1; j <= len(pts); j++ {
				stop := ""
				if j < len(pts) {
					stop = pts[j]
				}
				for _, id := range ids {
					out = append(out, uRegion{table, pts[i], stop, id})
				}
			}
		}
	}
	add(tables[0], bounds)
	add(tables[1], bounds2)
	return out
}

type c08Op struct {
	put bool
	r   int // universe index
}

type c08Cfg struct {
	name           string
	bounds, b2     []string
	ids            []uint64
	before, after  int
	differential   bool
	// the two tables of the universe ("" = t and its prefix-named sibling t1); a name with a
	// ':' has a namespace, which is part of the region name but a separate field of the info
	tables [2]string
}

func c08Configs(thorough bool) []c08Cfg {
	var out []c08Cfg
	b3 := []string{"b", "d", "f"}
	mk := func(before, after int, bounds []string, ids []uint64, diff bool) {
		out = append(out, c08Cfg{name: fmt.Sprintf("bounds=%d,ids=%d,before=%d,after=%d", len(bounds), len(ids), before, after),
			bounds: bounds, b2: []string{"d"}, ids: ids, before: before, after: after, differential: diff})
	}
	// the same universe for a table in a namespace, next to the default-namespace table of
	// the same qualifier, and next to a prefix-named table of its own namespace
	ns := func(before int, diff bool) {
		for _, tb := range [][2]string{{"ns:t", "t"}, {"ns:t", "ns:t1"}} {
			out = append(out, c08Cfg{name: fmt.Sprintf("tables=%s+%s,bounds=3,ids=2,before=%d,after=0", tb[0], tb[1], before),
				bounds: b3, b2: []string{"d"}, ids: []uint64{1, 2}, before: before, differential: diff, tables: tb})
		}
	}
	if !thorough {
		for _, f := range [][2]int{{0, 0}, {1, 0}, {0, 1}, {2, 1}, {63, 0}, {64, 1}, {65, 0}, {31, 1}} {
			mk(f[0], f[1], b3, []uint64{1, 2}, f[0] == 0)
		}
		ns(0, true)
		ns(2, false)
		return out
	}
	for _, bf := range []int{0, 1, 2, 63, 64} {
		ns(bf, bf == 0)
	}
	for _, bf := range []int{0, 1, 2, 30, 31, 32, 33, 62, 63, 64, 65, 127, 128, 130} {
		for _, af := range []int{0, 1} {
			mk(bf, af, b3, []uint64{1, 2}, true)
		}
	}
	// a larger universe: 4 boundaries incl. keys with 0x00/0xff/',' and three ids
	mk(0, 0, []string{"\x00", ",", "a", "\xff"}, []uint64{1, 2}, true)
	mk(63, 1, []string{"\x00", ",", "a", "\xff"}, []uint64{1, 2}, false)
	mk(0, 1, b3, []uint64{1, 2, 3}, true)
	mk(64, 0, b3, []uint64{1, 2, 3}, false)
	return out
}

type c08Run struct {
	cfg     c08Cfg
	univ    []uRegion
	names   [][]byte
	byName  map[string]int
	fillers []hrpc.RegionInfo
}

// build replays ops on a fresh real cache; returns cache and the live objects by universe index.
func (c *c08Run) build(ops []c08Op) (*gohbase.VCache, map[int]hrpc.RegionInfo) {
	vc := gohbase.VNewCache()
	if c.fillers == nil && c.cfg.before+c.cfg.after > 0 {
		// filler regions belong to other tables and are never evicted: the objects are shared
		for i := 0; i < c.cfg.before; i++ {
			c.fillers = append(c.fillers, uRegion{"s", fmt.Sprintf("%04d", i), fmt.Sprintf("%04d", i+1), 1}.mk())
		}
		for i := 0; i < c.cfg.after; i++ {
			c.fillers = append(c.fillers, uRegion{"u", fmt.Sprintf("%04d", i), fmt.Sprintf("%04d", i+1), 1}.mk())
		}
	}
	for _, f := range c.fillers {
		vc.Put(f)
	}
	live := map[int]hrpc.RegionInfo{}
	for _, op := range ops {
		c.apply(vc, live, op)
	}
	return vc, live
}

type c08Res struct {
	overlaps []int
	replaced bool
	deleted  bool
	evicted  []hrpc.RegionInfo
	obj      hrpc.RegionInfo
}

func (c *c08Run) idx(r hrpc.RegionInfo) int {
	if i, ok := c.byName[string(r.Name())]; ok {
		return i
	}
	return -1
}

func (c *c08Run) mk(i int) hrpc.RegionInfo {
	u := c.univ[i]
	var ns []byte
	tb := []byte(u.table)
	if j := strings.IndexByte(u.table, ':'); j >= 0 {
		ns, tb = []byte(u.table[:j]), []byte(u.table[j+1:])
	}
	return region.NewInfo(u.id, ns, tb, c.names[i], []byte(u.start), []byte(u.stop))
}

func (c *c08Run) apply(vc *gohbase.VCache, live map[int]hrpc.RegionInfo, op c08Op) c08Res {
	var res c08Res
	if op.put {
		obj := c.mk(op.r)
		res.obj = obj
		ov, rep := vc.Put(obj)
		res.replaced = rep
		for _, o := range ov {
			res.overlaps = append(res.overlaps, c.idx(o))
			if rep {
				res.evicted = append(res.evicted, o)
			}
		}
		if rep {
			for _, o := range res.overlaps {
				delete(live, o)
			}
			live[op.r] = obj
		}
	} else {
		obj, ok := live[op.r]
		if !ok {
			obj = c.mk(op.r)
		}
		res.obj = obj
		res.deleted = vc.Del(obj)
		delete(live, op.r)
	}
	return res
}

// state reads the canonical state (universe indices, sorted) from the real cache.
func (c *c08Run) state(vc *gohbase.VCache) ([]int, string) {
	var st []int
	fill := 0
	for _, r := range vc.Regions() {
		if i := c.idx(r); i >= 0 {
			st = append(st, i)
		} else {
			fill++
		}
	}
	if fill != c.cfg.before+c.cfg.after {
		return st, fmt.Sprintf("filler regions of other tables changed: %d, want %d", fill, c.cfg.before+c.cfg.after)
	}
	sort.Ints(st)
	return st, ""
}

func key(st []int) string { return fmt.Sprint(st) }

func (c *c08Run) descr(st []int) []string {
	var out []string
	for _, i := range st {
		out = append(out, c.univ[i].String())
	}
	return out
}

func contains(st []int, x int) bool {
	for _, v := range st {
		if v == x {
			return true
		}
	}
	return false
}

func sameSet(a, b []int) bool {
	a, b = append([]int{}, a...), append([]int{}, b...)
	sort.Ints(a)
	sort.Ints(b)
	return key(a) == key(b)
}

// judge checks one transition against the interval model.
func (c *c08Run) judge(before []int, op c08Op, res c08Res, after []int, live map[int]hrpc.RegionInfo) *explore.Finding {
	u := c.univ[op.r]
	ctxt := func() string {
		k := "del"
		if op.put {
			k = "put"
		}
		return fmt.Sprintf("config %s\nstate  %v\nop     %s(%s)\nresult overlaps=%v replaced=%v deleted=%v\nafter  %v", c.cfg.name, c.descr(before), k, u, c.descr(res.overlaps), res.replaced, res.deleted, c.descr(after))
	}
	// invariant
	for i := 0; i < len(after); i++ {
		for j := i + 1; j < len(after); j++ {
			if c.univ[after[i]].intersects(c.univ[after[j]]) {
				return &explore.Finding{Class: "overlapping-regions-cached", Msg: fmt.Sprintf("%s and %s are both cached\n%s", c.univ[after[i]], c.univ[after[j]], ctxt())}
			}
		}
	}
	for _, i := range after {
		if o := live[i]; o != nil && o.Context().Err() != nil {
			return &explore.Finding{Class: "cached-region-marked-dead", Msg: fmt.Sprintf("%s is cached but marked dead\n%s", c.univ[i], ctxt())}
		}
	}
	if !op.put {
		want := []int{}
		for _, i := range before {
			if i != op.r {
				want = append(want, i)
			}
		}
		if !sameSet(want, after) {
			return &explore.Finding{Class: "del-wrong-contents", Msg: ctxt()}
		}
		if res.deleted != contains(before, op.r) {
			return &explore.Finding{Class: "del-wrong-result", Msg: ctxt()}
		}
		if res.obj.Context().Err() == nil {
			return &explore.Finding{Class: "removed-region-not-dead", Msg: ctxt()}
		}
		return nil
	}
	if contains(before, op.r) {
		if res.replaced || !sameSet(before, after) {
			return &explore.Finding{Class: "put-of-cached-region-changed-cache", Msg: ctxt()}
		}
		return nil
	}
	var ov []int
	newer, equal := false, false
	for _, i := range before {
		if c.univ[i].intersects(u) {
			ov = append(ov, i)
			if c.univ[i].id > u.id {
				newer = true
			} else if c.univ[i].id == u.id {
				equal = true
			}
		}
	}
	if newer {
		if res.replaced || !sameSet(before, after) {
			return &explore.Finding{Class: "older-region-replaced-newer", Msg: ctxt()}
		}
		return nil
	}
	replacedState := append([]int{op.r}, func() []int {
		var k []int
		for _, i := range before {
			if !contains(ov, i) {
				k = append(k, i)
			}
		}
		return k
	}()...)
	if equal && !res.replaced {
		// equal ids with different names: the statement leaves the winner open
		if !sameSet(before, after) {
			return &explore.Finding{Class: "put-not-replaced-but-cache-changed", Msg: ctxt()}
		}
		return nil
	}
	if !res.replaced {
		return &explore.Finding{Class: "newest-region-not-inserted", Msg: ctxt()}
	}
	if !sameSet(after, replacedState) {
		return &explore.Finding{Class: "put-wrong-contents", Msg: fmt.Sprintf("want %v\n%s", c.descr(replacedState), ctxt())}
	}
	if !sameSet(res.overlaps, ov) {
		return &explore.Finding{Class: "put-wrong-overlaps-returned", Msg: fmt.Sprintf("want overlaps %v\n%s", c.descr(ov), ctxt())}
	}
	for _, e := range res.evicted {
		if e.Context().Err() == nil {
			return &explore.Finding{Class: "evicted-region-not-dead", Msg: ctxt()}
		}
	}
	if res.obj.Context().Err() != nil {
		return &explore.Finding{Class: "cached-region-marked-dead", Msg: ctxt()}
	}
	return nil
}

// model is the reference transition function (equal ids: the new region wins,
// which is one of the two outcomes the statement allows).
func (c *c08Run) model(before []int, op c08Op) []int {
	if !op.put {
		var out []int
		for _, i := range before {
			if i != op.r {
				out = append(out, i)
			}
		}
		return out
	}
	if contains(before, op.r) {
		return before
	}
	u := c.univ[op.r]
	var keep []int
	for _, i := range before {
		if c.univ[i].intersects(u) {
			if c.univ[i].id > u.id {
				return before
			}
			continue
		}
		keep = append(keep, i)
	}
	out := append(keep, op.r)
	sort.Ints(out)
	return out
}

func c08Direct(c *Ctx) {
	cfgs := c08Configs(c.Thorough)
	r := c.R
	var tctr int
	for _, cfg := range cfgs {
		if c.Filter != "" && c.Filter != cfg.name {
			continue
		}
		run := &c08Run{cfg: cfg, univ: c08Universe(cfg.bounds, cfg.b2, cfg.ids, cfg.tables)}
		run.byName = map[string]int{}
		for i, u := range run.univ {
			run.names = append(run.names, u.name())
			run.byName[string(u.name())] = i
		}
		var ops []c08Op
		for i := range run.univ {
			ops = append(ops, c08Op{true, i}, c08Op{false, i})
		}
		// Every shard walks the model's state graph (cheap); each transition is
		// executed and judged on the real cache by exactly one shard.
		paths := map[string][]c08Op{key(nil): nil}
		states := map[string][]int{key(nil): nil}
		frontier := []string{key(nil)}
		var transitions, checked, diffs, unreachable int64
		depth := 0
		for len(frontier) > 0 {
			var next []string
			for _, sk := range frontier {
				if r.TimeUp() {
					goto done
				}
				path := paths[sk]
				before := states[sk]
				for _, op := range ops {
					transitions++
					tctr++
					succ := run.model(before, op)
					k := key(succ)
					if _, seen := states[k]; !seen {
						states[k] = succ
						paths[k] = append(append([]c08Op{}, path...), op)
						next = append(next, k)
					}
					if !r.Owns(tctr) {
						continue
					}
					var f *explore.Finding
					var after []int
					skip := false
					if m := catch(func() {
						vc, live := run.build(path)
						if got, _ := run.state(vc); !sameSet(got, before) {
							skip = true // only reachable through the equal-id liberty the implementation does not take
							return
						}
						res := run.apply(vc, live, op)
						var serr string
						after, serr = run.state(vc)
						if serr != "" {
							f = &explore.Finding{Class: "other-table-disturbed", Msg: serr}
							return
						}
						f = run.judge(before, op, res, after, live)
						if f == nil && cfg.differential {
							var canon []c08Op
							for _, i := range before {
								canon = append(canon, c08Op{true, i})
							}
							vc2, live2 := run.build(canon)
							res2 := run.apply(vc2, live2, op)
							after2, _ := run.state(vc2)
							diffs++
							if !sameSet(after, after2) || res.replaced != res2.replaced || res.deleted != res2.deleted {
								f = &explore.Finding{Class: "history-dependent-result", Msg: fmt.Sprintf("state %v op %v(%s): by path -> %v, from canonical state -> %v", run.descr(before), op.put, run.univ[op.r], run.descr(after), run.descr(after2))}
							}
						}
					}); m != "" {
						f = &explore.Finding{Class: "cache-panic", Msg: fmt.Sprintf("state %v op put=%v %s: %s", run.descr(before), op.put, run.univ[op.r], m)}
					}
					if skip {
						unreachable++
						continue
					}
					checked++
					sig := ""
					if checked%97 == 0 {
						sig = fmt.Sprintf("n=%d", len(after))
					}
					r.Direct(cfg.name, len(before) > 0, sig, f, func() any {
						return map[string]any{"config": cfg.name, "state": run.descr(before), "put": op.put, "region": run.univ[op.r].String(), "after": run.descr(after)}
					})
				}
			}
			frontier = next
			depth++
		}
	done:
		r.Stats.Extra["transitions_checked_on_impl"] += checked
		r.Stats.Extra["differential_rebuilds"] += diffs
		r.Stats.Extra["states_not_reached_by_impl"] += unreachable
		if r.Shard == 0 {
			r.Stats.Extra["model_states"] += int64(len(states))
			r.Stats.Extra["model_transitions"] += transitions
			r.Stats.Extra["configs"]++
			r.Stats.Samples = append(r.Stats.Samples, map[string]any{"config": cfg.name, "states": len(states), "transitions": transitions, "bfs_depth": depth})
		}
	}
}

// ---- concurrent puts / dels: every schedule, linearizability against the model

type c08ConcObs struct {
	final   []int
	results []c08Res
	panicky bool
}

func c08ConcUnits(thorough bool) []*explore.Unit {
	cfg := c08Cfg{name: "concurrent", bounds: []string{"b", "d", "f"}, b2: []string{"d"}, ids: []uint64{1, 2}}
	run := &c08Run{cfg: cfg, univ: c08Universe(cfg.bounds, cfg.b2, cfg.ids, cfg.tables)}
	run.byName = map[string]int{}
	for i, u := range run.univ {
		run.names = append(run.names, u.name())
		run.byName[string(u.name())] = i
	}
	nt := 0
	for i, u := range run.univ {
		if u.table == run.univ[0].table {
			nt = i + 1
		}
	}
	inits := [][]int{nil}
	for i := 0; i < nt; i += 3 {
		inits = append(inits, []int{i})
	}
	var units []*explore.Unit
	step := 1
	if !thorough {
		step = 2
	}
	for _, init := range inits {
		for a := 0; a < nt; a += step {
			for b := a + 1; b < nt; b += step {
				if !run.univ[a].intersects(run.univ[b]) {
					continue // disjoint puts commute trivially
				}
				opsets := [][]c08Op{{{true, a}, {true, b}}}
				if thorough || (a+b)%5 == 0 {
					opsets = append(opsets, []c08Op{{true, a}, {true, b}, {false, a}})
				}
				for _, ops := range opsets {
					init, ops := init, ops
					out := &c08ConcObs{}
					name := fmt.Sprintf("conc|init=%v|ops=%v", run.descr(init), func() []string {
						var s []string
						for _, o := range ops {
							k := "del"
							if o.put {
								k = "put"
							}
							s = append(s, k+" "+run.univ[o.r].String())
						}
						return s
					}())
					u := &explore.Unit{Name: name, Bound: 2, Opt: vrt.Options{MaxSteps: 5000}}
					u.Body = func() {
						*out = c08ConcObs{results: make([]c08Res, len(ops))}
						var pre []c08Op
						for _, i := range init {
							pre = append(pre, c08Op{true, i})
						}
						vc, live := run.build(pre)
						fin := make(chan int, len(ops))
						for i, op := range ops {
							i, op := i, op
							vrt.GoNamed(fmt.Sprintf("h:op%d", i), func() {
								if op.put {
									obj := run.mk(op.r)
									ov, rep := vc.Put(obj)
									out.results[i] = c08Res{replaced: rep, obj: obj}
									for _, o := range ov {
										out.results[i].overlaps = append(out.results[i].overlaps, run.idx(o))
									}
								} else {
									obj, ok := live[op.r]
									if !ok {
										obj = run.mk(op.r)
									}
									out.results[i] = c08Res{deleted: vc.Del(obj), obj: obj}
								}
								vrt.Send(fin, i)
							})
						}
						for range ops {
							vrt.Recv(fin)
						}
						out.final, _ = run.state(vc)
					}
					u.Check = func(res *vrt.Result) *explore.Finding {
						if f := baseFinding(res); f != nil {
							f.Msg += "\n" + name
							return f
						}
						if res.Deadlock {
							return &explore.Finding{Class: "cache-operation-blocked", Msg: fmt.Sprintf("%v\n%s", res.Blocked, name)}
						}
						for i := 0; i < len(out.final); i++ {
							for j := i + 1; j < len(out.final); j++ {
								if run.univ[out.final[i]].intersects(run.univ[out.final[j]]) {
									return &explore.Finding{Class: "overlapping-regions-cached-after-concurrent-puts",
										Msg: fmt.Sprintf("%s and %s are both cached\n%s", run.univ[out.final[i]], run.univ[out.final[j]], name)}
								}
							}
						}
						// the outcome must equal that of some sequential order of the operations
						perms := factorial(len(ops))
						for k := 0; k < perms; k++ {
							st := append([]int{}, init...)
							sort.Ints(st)
							for _, oi := range permutation(len(ops), k) {
								st = run.model(st, ops[oi])
							}
							if sameSet(st, out.final) {
								return nil
							}
						}
						return &explore.Finding{Class: "concurrent-cache-outcome-not-linearizable",
							Msg: fmt.Sprintf("final cache %v is not the result of any sequential order\n%s", run.descr(out.final), name)}
					}
					u.Sig = func() string { return fmt.Sprint(len(out.final)) }
					units = append(units, u)
				}
			}
		}
	}
	return units
}

func init() {
	register(&Prop{
		Units: c08ConcUnits,
		ID: "C08", Level: "model_checking",
		Technique: "explicit-state breadth-first search over the real location cache (every transition executed on the implementation) against an interval model",
		Rule: "(concurrent part: every pair of intersecting puts, some with a delete, from several initial states, all schedules with <=2 deviations, outcome must be linearizable and overlap-free) state = canonical set of cached regions from a universe of all intervals over 3-4 boundary points x 2-3 ids for table t plus a prefix-named table t1 - and again for a namespaced table ns:t next to the default-namespace table t and next to ns:t1; transitions = put(r)/del(r) for every r, each executed on a real keyRegionCache rebuilt by replaying the shortest path; repeated with 0..130 filler regions of other tables before/after to move the entries across B-tree page boundaries. Non-trivial = transition from a non-empty state.",
		Assumptions: []string{"regions with equal ids and different names: winner left open by the statement, only the invariant is required", "universe bounded to 4-5 boundary points, 2-3 ids, two tables plus fillers"},
		Quick:       60 * time.Second, Thorough: 12 * time.Minute,
		Direct: c08Direct,
	})
}
