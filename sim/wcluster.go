package sim

import (
	"strings"

	"github.com/tsuna/gohbase/pb"
	"google.golang.org/protobuf/proto"

	"verif/vrt"
)

// Tier W: the cluster behind real connections. Dialer returns a dial function
// for region.NewClient / gohbase.RegionDialer; every accepted connection gets a
// server thread that decodes frames with the independent codec and executes
// them with the same executor tier L uses.

// WConn is one accepted connection.
type WConn struct {
	Addr   string
	Conn   *Conn
	Server *Server
}

// Accept creates the server side of a new connection to addr (nil if refused).
func (c *Cluster) Accept(addr string, compressed bool) *WConn {
	c.Dialed(addr)
	if c.Down[addr] {
		return nil
	}
	conn := &Conn{Name: addr}
	w := &WConn{Addr: addr, Conn: conn, Server: &Server{Conn: conn, Compressed: compressed}}
	c.Opened(addr)
	closed := false
	conn.OnClose = func() {
		if !closed {
			closed = true
			c.Closed(addr)
		}
	}
	c.OnReset(addr, func() { conn.SrvClose = true })
	c.WConns = append(c.WConns, w)
	frameNo := 0
	w.Server.OnFrame = func(s *Server, f *Frame) {
		frameNo++
		c.serveFrame(addr, s, f, frameNo, compressed)
	}
	vrt.GoNamed("h:srv:"+addr, func() {
		w.Server.Run()
		if len(w.Server.Errors) > 0 {
			c.Errors = append(c.Errors, w.Server.Errors...)
		}
	})
	return w
}

func excOf(r OpResult) *pb.ExceptionResponse {
	return &pb.ExceptionResponse{ExceptionClassName: proto.String(r.Class), StackTrace: proto.String(r.Stack)}
}

func (c *Cluster) serveFrame(addr string, s *Server, f *Frame, frameNo int, compressed bool) {
	id := f.Header.GetCallId()
	send := func(resp proto.Message, exc *pb.ExceptionResponse, cells []KV) {
		b := EncodeResponseC(id, resp, exc, cells, compressed)
		if c.DelayResp[addr] {
			// the server has executed the request; its response is on its way (slow network)
			c.delayed = append(c.delayed, func() { s.Send(b) })
			return
		}
		s.Send(b)
	}
	ident := func(row []byte) any { return string(row) } // tier W identifies a call by its row
	switch req := f.Req.(type) {
	case *pb.GetRequest:
		kind := "get"
		if req.GetGet().GetExistenceOnly() {
			kind = "exists"
		}
		r := c.ExecOp(addr, req.GetRegion().GetValue(), kind, req.GetGet().GetRow(), ident(req.GetGet().GetRow()), frameNo)
		switch {
		case r.NoAnswer:
		case r.Class != "":
			send(nil, excOf(r), nil)
		case kind == "exists":
			send(&pb.GetResponse{Result: &pb.Result{Exists: proto.Bool(false)}}, nil, nil)
		default:
			var resp proto.Message = &pb.GetResponse{Result: &pb.Result{AssociatedCellCount: proto.Int32(int32(len(r.Cells)))}}
			cells := r.Cells
			if c.RespHook != nil {
				resp, cells = c.RespHook(kind, req.GetGet().GetRow(), resp, cells)
			}
			send(resp, nil, cells)
		}
	case *pb.MutateRequest:
		kind := strings.ToLower(req.GetMutation().GetMutateType().String())
		r := c.ExecOp(addr, req.GetRegion().GetValue(), kind, req.GetMutation().GetRow(), ident(req.GetMutation().GetRow()), frameNo)
		switch {
		case r.NoAnswer:
		case r.Class != "":
			send(nil, excOf(r), nil)
		default:
			var resp proto.Message = &pb.MutateResponse{Processed: proto.Bool(true), Result: &pb.Result{AssociatedCellCount: proto.Int32(int32(len(r.Cells)))}}
			cells := r.Cells
			if c.RespHook != nil {
				resp, cells = c.RespHook(kind, req.GetMutation().GetRow(), resp, cells)
			}
			send(resp, nil, cells)
		}
	case *pb.ScanRequest:
		if string(req.GetRegion().GetValue()) == "hbase:meta,,1" && req.ScannerId == nil {
			r, found := c.ExecMetaLookup(addr, req.GetScan().GetStartRow(), req.GetScan().GetStopRow())
			switch {
			case r.NoAnswer:
			case r.Class != "":
				send(nil, excOf(r), nil)
			default:
				sr := &pb.ScanResponse{MoreResults: proto.Bool(false), MoreResultsInRegion: proto.Bool(false)}
				cells := r.Cells
				if c.MetaHook != nil {
					// structurally valid rows with odd contents in answer to a lookup
					cells = c.MetaHook(req.GetScan().GetStartRow(), cells)
				}
				if found != nil || len(cells) > 0 {
					sr.CellsPerResult = []uint32{uint32(len(cells))}
					sr.PartialFlagPerResult = []bool{false}
				}
				send(sr, nil, cells)
			}
			return
		}
		if c.ScanHandler != nil {
			// a stateful regionserver-side scanner implementation supplied by the harness
			reg := c.ByName(req.GetRegion().GetValue())
			if reg == nil || reg.Server != addr {
				c.attempt(addr, string(req.GetRegion().GetValue()), "scan", ClsNSRE)
				send(nil, &pb.ExceptionResponse{ExceptionClassName: proto.String(ClsNSRE), StackTrace: proto.String("not online")}, nil)
				return
			}
			c.attempt(addr, string(req.GetRegion().GetValue()), "scan", "ok")
			resp, cells, cls := c.ScanHandler(reg, req)
			if cls != "" {
				send(nil, &pb.ExceptionResponse{ExceptionClassName: proto.String(cls), StackTrace: proto.String("scan failed")}, nil)
			} else {
				send(resp, nil, cells)
			}
			return
		}
		r := c.ExecOp(addr, req.GetRegion().GetValue(), "scan", req.GetScan().GetStartRow(), ident(req.GetScan().GetStartRow()), frameNo)
		switch {
		case r.NoAnswer:
		case r.Class != "":
			send(nil, excOf(r), nil)
		default:
			send(&pb.ScanResponse{MoreResults: proto.Bool(false), MoreResultsInRegion: proto.Bool(false)}, nil, nil)
		}
	case *pb.MultiRequest:
		if cls, ok := c.PopServerScript(addr); ok && !c.Silent[addr] {
			c.attempt(addr, "(multi)", "multi", cls)
			send(nil, &pb.ExceptionResponse{ExceptionClassName: proto.String(cls), StackTrace: proto.String("scripted server exception")}, nil)
			return
		}
		c.MultiSeq++
		c.Tag = c.MultiSeq
		c.InMulti = true
		mr := &pb.MultiResponse{}
		var cells []KV
		silent := false
		for _, ra := range req.RegionAction {
			rar := &pb.RegionActionResult{}
			for _, a := range ra.Action {
				var row []byte
				kind := "get"
				if a.Get != nil {
					row = a.Get.GetRow()
				} else {
					row = a.Mutation.GetRow()
					kind = strings.ToLower(a.Mutation.GetMutateType().String())
				}
				r := c.ExecOp(addr, ra.GetRegion().GetValue(), kind, row, ident(row), frameNo)
				switch {
				case r.NoAnswer:
					silent = true
				case r.Class != "":
					rar.ResultOrException = append(rar.ResultOrException, &pb.ResultOrException{Index: a.Index,
						Exception: &pb.NameBytesPair{Name: proto.String(r.Class), Value: []byte(r.Stack)}})
				default:
					rar.ResultOrException = append(rar.ResultOrException, &pb.ResultOrException{Index: a.Index,
						Result: &pb.Result{AssociatedCellCount: proto.Int32(int32(len(r.Cells)))}})
					cells = append(cells, r.Cells...)
				}
			}
			mr.RegionActionResult = append(mr.RegionActionResult, rar)
		}
		c.InMulti = false
		c.Tag = 0
		if !silent {
			send(mr, nil, cells)
		}
	}
}

// ReleaseResponses delivers every delayed response, in order, and ends the delay.
func (c *Cluster) ReleaseResponses() {
	c.DelayResp = map[string]bool{}
	d := c.delayed
	c.delayed = nil
	for _, f := range d {
		f()
	}
}
