package sim

import (
	"encoding/binary"
	"errors"
	"fmt"
)

// SnappyDecode is an independent decoder of the raw snappy block format
// (written from the format description, not from golang/snappy).
func SnappyDecode(src []byte) ([]byte, error) {
	n, k := binary.Uvarint(src)
	if k <= 0 || n > 1<<32 {
		return nil, errors.New("snappy: bad length preamble")
	}
	src = src[k:]
	out := make([]byte, 0, minInt(int(n), 1<<24))
	for len(src) > 0 {
		tag := src[0]
		switch tag & 3 {
		case 0: // literal
			l := int(tag >> 2)
			hdr := 1
			if l >= 60 {
				nb := l - 59
				if len(src) < 1+nb {
					return nil, errors.New("snappy: truncated literal length")
				}
				l = 0
				for i := 0; i < nb; i++ {
					l |= int(src[1+i]) << (8 * i)
				}
				hdr = 1 + nb
			}
			l++
			if l <= 0 || len(src) < hdr+l {
				return nil, errors.New("snappy: truncated literal")
			}
			out = append(out, src[hdr:hdr+l]...)
			src = src[hdr+l:]
		case 1:
			if len(src) < 2 {
				return nil, errors.New("snappy: truncated copy1")
			}
			l := int(tag>>2)&7 + 4
			off := int(tag>>5)<<8 | int(src[1])
			var err error
			if out, err = snappyCopy(out, off, l); err != nil {
				return nil, err
			}
			src = src[2:]
		case 2:
			if len(src) < 3 {
				return nil, errors.New("snappy: truncated copy2")
			}
			l := int(tag>>2) + 1
			off := int(src[1]) | int(src[2])<<8
			var err error
			if out, err = snappyCopy(out, off, l); err != nil {
				return nil, err
			}
			src = src[3:]
		case 3:
			if len(src) < 5 {
				return nil, errors.New("snappy: truncated copy4")
			}
			l := int(tag>>2) + 1
			off := int(binary.LittleEndian.Uint32(src[1:]))
			var err error
			if out, err = snappyCopy(out, off, l); err != nil {
				return nil, err
			}
			src = src[5:]
		}
		if uint64(len(out)) > n {
			return nil, errors.New("snappy: output longer than declared")
		}
	}
	if uint64(len(out)) != n {
		return nil, fmt.Errorf("snappy: decoded %d bytes, preamble says %d", len(out), n)
	}
	return out, nil
}

func snappyCopy(out []byte, off, l int) ([]byte, error) {
	if off <= 0 || off > len(out) {
		return nil, errors.New("snappy: bad copy offset")
	}
	for i := 0; i < l; i++ {
		out = append(out, out[len(out)-off])
	}
	return out, nil
}

// SnappyEncodeLiteral encodes src as a single-literal (or several literals) snappy block.
func SnappyEncodeLiteral(src []byte) []byte {
	out := binary.AppendUvarint(nil, uint64(len(src)))
	for len(src) > 0 {
		n := len(src)
		if n > 65536 {
			n = 65536
		}
		l := n - 1
		switch {
		case l < 60:
			out = append(out, byte(l<<2))
		case l < 1<<8:
			out = append(out, 60<<2, byte(l))
		default:
			out = append(out, 61<<2, byte(l), byte(l>>8))
		}
		out = append(out, src[:n]...)
		src = src[n:]
	}
	return out
}

func minInt(a, b int) int {
	if a < b {
		return a
	}
	return b
}

// BlockStreamDecode is an independent reader of Hadoop's block-compressed
// stream: repeated [uncompressed block length][chunk length, chunk]...
func BlockStreamDecode(b []byte) ([]byte, error) {
	var out []byte
	for len(b) > 0 {
		if len(b) < 4 {
			return nil, errors.New("blockstream: truncated block length")
		}
		blockLen := int(binary.BigEndian.Uint32(b))
		b = b[4:]
		got := 0
		for got < blockLen {
			if len(b) < 4 {
				return nil, errors.New("blockstream: truncated chunk length")
			}
			cl := int(binary.BigEndian.Uint32(b))
			b = b[4:]
			if cl > len(b) {
				return nil, errors.New("blockstream: truncated chunk")
			}
			dec, err := SnappyDecode(b[:cl])
			if err != nil {
				return nil, err
			}
			b = b[cl:]
			got += len(dec)
			out = append(out, dec...)
		}
		if got != blockLen {
			return nil, fmt.Errorf("blockstream: block declared %d bytes, chunks hold %d", blockLen, got)
		}
	}
	return out, nil
}

// BlockStreamEncode writes payload as the given blocks, each cut into chunks of
// the given sizes, using enc for each chunk.
func BlockStreamEncode(blocks [][][]byte, enc func([]byte) []byte) []byte {
	var out []byte
	var u [4]byte
	for _, chunks := range blocks {
		total := 0
		for _, c := range chunks {
			total += len(c)
		}
		binary.BigEndian.PutUint32(u[:], uint32(total))
		out = append(out, u[:]...)
		for _, c := range chunks {
			e := enc(c)
			binary.BigEndian.PutUint32(u[:], uint32(len(e)))
			out = append(out, u[:]...)
			out = append(out, e...)
		}
	}
	return out
}
