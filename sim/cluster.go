package sim

import (
	"bytes"
	"encoding/binary"
	"fmt"
	"sort"
	"time"

	"github.com/tsuna/gohbase/pb"
	"google.golang.org/protobuf/proto"
)

// Region of the simulated cluster.
type Region struct {
	Table       string
	Start, Stop []byte
	ID          uint64
	Server      string
	// Offline: a row hbase:meta still holds for a region that no longer exists (the parent
	// of a split, flagged offline + split, until the catalog janitor removes it)
	Offline bool
}

// Name is table,start,id.hash. ; the hash depends on the whole identity.
func (r *Region) Name() []byte {
	h := uint32(2166136261)
	for _, c := range []byte(fmt.Sprintf("%s|%s|%s|%d", r.Table, r.Start, r.Stop, r.ID)) {
		h = (h ^ uint32(c)) * 16777619
	}
	return []byte(fmt.Sprintf("%s,%s,%d.%08x.", r.Table, r.Start, r.ID, h))
}

func (r *Region) Contains(key []byte) bool {
	return bytes.Compare(key, r.Start) >= 0 && (len(r.Stop) == 0 || bytes.Compare(key, r.Stop) < 0)
}

func (r *Region) String() string {
	return fmt.Sprintf("%s[%q,%q)#%d@%s", r.Table, r.Start, r.Stop, r.ID, r.Server)
}

// Exec is one operation executed by a simulated regionserver.
type Exec struct {
	Seq    int
	Server string
	Region string
	Kind   string
	Row    string
	Ident  any
	At     time.Duration
	Frame  int // request frame number on the server (tier W), 0 in tier L
}

// MetaScan is one lookup served by the simulated hbase:meta.
type MetaScan struct {
	StartRow string
	At       time.Duration
	Found    string
}

// Attempt is any request that reached a server (executed or refused), for timing oracles.
type Attempt struct {
	Server, Region, Kind, Outcome string
	Row                            string
	Ident                          any
	Tag                            int
	At                             time.Duration
}

// Misrouted reports whether the request was addressed to a region or server that does not
// own its row. The client's own probe of a region whose range is shorter than the probe
// key's padding (start key + 17 zero bytes) legitimately falls outside the range.
func (a Attempt) Misrouted() bool {
	return a.Outcome == ClsNSRE || (a.Outcome == ClsWrongRegion && a.Kind != "exists")
}

// OpResult is the outcome of one operation.
type OpResult struct {
	Class, Stack string // exception (Class == "" means success)
	Cells        []KV
	NoAnswer     bool // the server stays silent
}

// Cluster is the simulated HBase cluster: regions, servers, hbase:meta,
// ZooKeeper contents, scripted transient behaviour, and observers.
type Cluster struct {
	Regions    []*Region
	MetaAddr   string
	MasterAddr string
	Down       map[string]bool     // server refuses connections
	// RespHook (tier W) may replace the response and the cells of a successfully executed
	// single-row operation: structurally valid answers with odd contents
	RespHook func(kind string, row []byte, resp proto.Message, cells []KV) (proto.Message, []KV)
	// MetaHook (tier W) may replace the cells of the row answering a region lookup
	MetaHook func(startRow []byte, cells []KV) []KV
	// StaleRows: rows of regions that no longer exist which hbase:meta still holds (Offline)
	StaleRows []*Region
	Silent     map[string]bool     // server accepts requests but never answers
	Hold       map[string]bool     // row key -> the answer to user operations on it is held back (slow server)
	KeyScript  map[string][]string // row key -> outcome classes of the next user operations on it ("" = execute)
	Script     map[string][]string // region name (or table name, or "*") -> exception classes for the next operations
	SrvScript  map[string][]string // server -> header-level exception classes for the next requests
	ZKScript   []string            // errors for the next ZooKeeper lookups ("" = answer)
	Counters   map[string]int64    // increment / append model table
	Now        func() time.Duration
	InMulti    bool // set while the actions of one multi-request are executed (header-level scripts were consumed by the caller)
	Tag        int  // harness tag stamped on attempts (e.g. the number of the multi-request / queue operation)

	Log       []Exec
	Attempts  []Attempt
	MetaScans []MetaScan
	Dials     map[string]int
	Open      map[string]int
	MaxOpen   map[string]int
	ZKLookups []time.Duration
	ZKAfterClose int
	Errors    []string // protocol errors seen by servers
	WConns    []*WConn // tier W: every accepted connection
	// ScanHandler, when set, serves scans of user tables on tier W (stateful scanners).
	ScanHandler func(reg *Region, req *pb.ScanRequest) (*pb.ScanResponse, []KV, string)
	DelayResp map[string]bool // tier W: server -> responses are held back until ReleaseResponses
	delayed   []func()
	MultiSeq  int
	nextID    uint64
	resets    map[string][]func() // server -> live connections' reset callbacks
	curRow    string
	curIdent  any
}

func NewCluster(meta string) *Cluster {
	return &Cluster{MetaAddr: meta, MasterAddr: "master:16000", Down: map[string]bool{}, Silent: map[string]bool{},
		DelayResp: map[string]bool{}, Hold: map[string]bool{}, KeyScript: map[string][]string{}, Script: map[string][]string{}, SrvScript: map[string][]string{}, Counters: map[string]int64{},
		Dials: map[string]int{}, Open: map[string]int{}, MaxOpen: map[string]int{}, resets: map[string][]func(){},
		Now: func() time.Duration { return 0 }, nextID: 100}
}

// AddTable lays out table with the given split points on the servers (round robin).
func (c *Cluster) AddTable(table string, splits []string, servers []string) {
	prev := ""
	for i := 0; i <= len(splits); i++ {
		stop := ""
		if i < len(splits) {
			stop = splits[i]
		}
		c.nextID++
		c.Regions = append(c.Regions, &Region{Table: table, Start: []byte(prev), Stop: []byte(stop), ID: c.nextID, Server: servers[i%len(servers)]})
		prev = stop
	}
}

func (c *Cluster) ByName(name []byte) *Region {
	for _, r := range c.Regions {
		if bytes.Equal(r.Name(), name) {
			return r
		}
	}
	return nil
}

// Owner returns the region currently containing (table,key).
func (c *Cluster) Owner(table string, key []byte) *Region {
	for _, r := range c.Regions {
		if r.Table == table && r.Contains(key) {
			return r
		}
	}
	return nil
}

// ---- events ---------------------------------------------------------------

func (c *Cluster) Move(r *Region, to string) { r.Server = to }

// Split replaces r by two daughters (new ids) at key.
func (c *Cluster) Split(r *Region, key string, s1, s2 string) (*Region, *Region) {
	c.nextID++
	a := &Region{Table: r.Table, Start: r.Start, Stop: []byte(key), ID: c.nextID, Server: s1}
	c.nextID++
	b := &Region{Table: r.Table, Start: []byte(key), Stop: r.Stop, ID: c.nextID, Server: s2}
	c.remove(r)
	c.Regions = append(c.Regions, a, b)
	return a, b
}

// Merge replaces two adjacent regions by one (new id).
func (c *Cluster) Merge(a, b *Region, server string) *Region {
	c.nextID++
	m := &Region{Table: a.Table, Start: a.Start, Stop: b.Stop, ID: c.nextID, Server: server}
	c.remove(a)
	c.remove(b)
	c.Regions = append(c.Regions, m)
	return m
}

func (c *Cluster) DropTable(table string) {
	var keep []*Region
	for _, r := range c.Regions {
		if r.Table != table {
			keep = append(keep, r)
		}
	}
	c.Regions = keep
}

func (c *Cluster) remove(r *Region) {
	for i, x := range c.Regions {
		if x == r {
			c.Regions = append(c.Regions[:i:i], c.Regions[i+1:]...)
			return
		}
	}
}

// Crash takes a server down: new connections are refused and live ones are reset.
func (c *Cluster) Crash(addr string) {
	c.Down[addr] = true
	c.ResetConns(addr)
}

// ResetConns resets every live connection to addr (the server stays up).
func (c *Cluster) ResetConns(addr string) {
	rs := c.resets[addr]
	c.resets[addr] = nil
	for _, f := range rs {
		f()
	}
}

// OnReset registers a live connection's reset callback.
func (c *Cluster) OnReset(addr string, f func()) { c.resets[addr] = append(c.resets[addr], f) }

func (c *Cluster) Dialed(addr string) {
	c.Dials[addr]++
}
func (c *Cluster) Opened(addr string) {
	c.Open[addr]++
	if c.Open[addr] > c.MaxOpen[addr] {
		c.MaxOpen[addr] = c.Open[addr]
	}
}
func (c *Cluster) Closed(addr string) { c.Open[addr]-- }

// ---- operations -----------------------------------------------------------

const (
	ClsNSRE         = "org.apache.hadoop.hbase.NotServingRegionException"
	// what a regionserver answers when the named region is online there but the row lies
	// outside its range (HRegion.checkRow); the client knows no such class: not retryable
	ClsWrongRegion = "org.apache.hadoop.hbase.regionserver.WrongRegionException"
	ClsRegionMoved  = "org.apache.hadoop.hbase.exceptions.RegionMovedException"
	ClsRegionOpen   = "org.apache.hadoop.hbase.exceptions.RegionOpeningException"
	ClsTooBusy      = "org.apache.hadoop.hbase.RegionTooBusyException"
	ClsCallQueue    = "org.apache.hadoop.hbase.CallQueueTooBigException"
	ClsThrottle     = "org.apache.hadoop.hbase.quotas.RpcThrottlingException"
	ClsServerStop   = "org.apache.hadoop.hbase.regionserver.RegionServerStoppedException"
	ClsServerAbort  = "org.apache.hadoop.hbase.regionserver.RegionServerAbortedException"
	ClsApp          = "org.apache.hadoop.hbase.DoNotRetryIOException"
	ClsNoSuchFamily = "org.apache.hadoop.hbase.regionserver.NoSuchColumnFamilyException"
)

func (c *Cluster) pop(m map[string][]string, key string) (string, bool) {
	q := m[key]
	if len(q) == 0 {
		return "", false
	}
	m[key] = q[1:]
	return q[0], true
}

func (c *Cluster) attempt(addr, region, kind, outcome string) {
	c.Attempts = append(c.Attempts, Attempt{Server: addr, Region: region, Kind: kind, Outcome: outcome, At: c.Now(), Tag: c.Tag, Row: c.curRow, Ident: c.curIdent})
}

// PopServerScript consumes the next header-level scripted exception of a server.
func (c *Cluster) PopServerScript(addr string) (string, bool) { return c.pop(c.SrvScript, addr) }

// ExecOp executes one single-row operation addressed to regionName on server addr.
func (c *Cluster) ExecOp(addr string, regionName []byte, kind string, row []byte, ident any, frame int) OpResult {
	c.curRow, c.curIdent = string(row), ident
	defer func() { c.curRow, c.curIdent = "", nil }()
	if c.Silent[addr] {
		c.attempt(addr, string(regionName), kind, "silent")
		return OpResult{NoAnswer: true}
	}
	if kind != "exists" && c.Hold[string(row)] {
		c.attempt(addr, string(regionName), kind, "held")
		return OpResult{NoAnswer: true}
	}
	if !c.InMulti {
		if cls, ok := c.pop(c.SrvScript, addr); ok {
			c.attempt(addr, string(regionName), kind, cls)
			return OpResult{Class: cls, Stack: "scripted server exception"}
		}
	}
	if string(regionName) == "hbase:meta,,1" {
		// only the client's probe touches hbase:meta with a single-row operation
		if addr != c.MetaAddr {
			c.attempt(addr, string(regionName), kind, ClsNSRE)
			return OpResult{Class: ClsNSRE, Stack: "hbase:meta is not online on " + addr}
		}
		if cls, ok := c.pop(c.Script, "hbase:meta,,1"); ok {
			c.attempt(addr, string(regionName), kind, cls)
			return OpResult{Class: cls, Stack: "scripted meta exception"}
		}
		c.attempt(addr, string(regionName), kind, "ok")
		return OpResult{}
	}
	r := c.ByName(regionName)
	if r == nil || r.Server != addr {
		c.attempt(addr, string(regionName), kind, ClsNSRE)
		return OpResult{Class: ClsNSRE, Stack: fmt.Sprintf("region %s is not online on %s", regionName, addr)}
	}
	if !r.Contains(row) {
		c.attempt(addr, string(regionName), kind, ClsWrongRegion)
		return OpResult{Class: ClsWrongRegion, Stack: fmt.Sprintf("Requested row out of range for %s on HRegion %s", kind, regionName)}
	}
	if kind != "exists" {
		if cls, ok := c.pop(c.KeyScript, string(row)); ok && cls != "" {
			c.attempt(addr, string(regionName), kind, cls)
			return OpResult{Class: cls, Stack: "scripted outcome for row " + string(row)}
		}
	}
	for _, key := range []string{string(regionName), r.Table, "*"} {
		if q := c.Script[key]; kind == "exists" && len(q) > 0 && (q[0] == ClsNoSuchFamily || q[0] == ClsApp) {
			continue // an application-level exception is raised by a user operation, never by the client's probe
		}
		if cls, ok := c.pop(c.Script, key); ok {
			c.attempt(addr, string(regionName), kind, cls)
			return OpResult{Class: cls, Stack: "scripted region exception"}
		}
	}
	c.attempt(addr, string(regionName), kind, "ok")
	c.Log = append(c.Log, Exec{Seq: len(c.Log) + 1, Server: addr, Region: string(r.Name()), Kind: kind, Row: string(row), Ident: ident, At: c.Now(), Frame: frame})
	switch kind {
	case "get":
		return OpResult{Cells: []KV{{Row: row, Family: []byte("f"), Qualifier: []byte("q"), Value: append([]byte("v:"), row...), TS: 7, Type: 4}}}
	case "exists":
		return OpResult{}
	case "increment", "append":
		c.Counters[r.Table+"/"+string(row)]++
		v := make([]byte, 8)
		binary.BigEndian.PutUint64(v, uint64(c.Counters[r.Table+"/"+string(row)]))
		return OpResult{Cells: []KV{{Row: row, Family: []byte("f"), Qualifier: []byte("q"), Value: v, TS: 7, Type: 4}}}
	}
	return OpResult{}
}

const (
	ClsMasterStopped  = "org.apache.hadoop.hbase.exceptions.MasterStoppedException"
	ClsNotRunningYet  = "org.apache.hadoop.hbase.ipc.ServerNotRunningYetException"
	ClsPleaseHold     = "org.apache.hadoop.hbase.PleaseHoldException"
)

// ExecMaster executes one administrative call on the server at addr. Only the
// active master serves it; a server that is not (or not yet) the active master
// answers ServerNotRunningYetException, as a backup master does.
func (c *Cluster) ExecMaster(addr, kind string, ident any) OpResult {
	c.curIdent = ident
	defer func() { c.curIdent = nil }()
	if c.Silent[addr] {
		c.attempt(addr, "master", kind, "silent")
		return OpResult{NoAnswer: true}
	}
	if cls, ok := c.pop(c.SrvScript, addr); ok {
		c.attempt(addr, "master", kind, cls)
		return OpResult{Class: cls, Stack: "scripted master exception"}
	}
	if addr != c.MasterAddr {
		c.attempt(addr, "master", kind, ClsNotRunningYet)
		return OpResult{Class: ClsNotRunningYet, Stack: addr + " is not the active master"}
	}
	c.attempt(addr, "master", kind, "ok")
	c.Log = append(c.Log, Exec{Seq: len(c.Log) + 1, Server: addr, Region: "master", Kind: kind, Ident: ident, At: c.Now()})
	return OpResult{}
}

// ExecCount returns how often the call with the given identity was executed.
func (c *Cluster) ExecCount(ident any) int {
	n := 0
	for _, e := range c.Log {
		if e.Ident == ident {
			n++
		}
	}
	return n
}

func cmpNames(at, ak, ai, bt, bk, bi []byte) int {
	if c := bytes.Compare(at, bt); c != 0 {
		return c
	}
	if c := bytes.Compare(ak, bk); c != 0 {
		return c
	}
	return bytes.Compare(ai, bi)
}

func splitRegionName(n []byte) (t, k, i []byte) {
	a := bytes.IndexByte(n, ',')
	b := bytes.LastIndexByte(n, ',')
	if a < 0 {
		return n, nil, nil
	}
	if b == a {
		return n[:a], n[a+1:], nil
	}
	return n[:a], n[a+1 : b], n[b+1:]
}

// MetaCells builds the hbase:meta row of a region.
func MetaCells(r *Region) []KV {
	ns, tb := []byte("default"), []byte(r.Table)
	if i := bytes.IndexByte(tb, ':'); i >= 0 {
		ns, tb = tb[:i], tb[i+1:]
	}
	info := &pb.RegionInfo{RegionId: proto.Uint64(r.ID),
		TableName: &pb.TableName{Namespace: ns, Qualifier: tb}, StartKey: r.Start, EndKey: r.Stop}
	if r.Offline {
		info.Offline, info.Split = proto.Bool(true), proto.Bool(true)
	}
	ri, _ := proto.Marshal(info)
	n := r.Name()
	return []KV{
		{Row: n, Family: []byte("info"), Qualifier: []byte("regioninfo"), Value: append([]byte("PBUF"), ri...), TS: 1, Type: 4},
		{Row: n, Family: []byte("info"), Qualifier: []byte("server"), Value: []byte(r.Server), TS: 1, Type: 4},
	}
}

// ExecMetaLookup serves the reversed one-row scan the client uses to locate a
// region: the greatest region name <= startRow in (table, start key, id) tuple
// order whose table is >= stopRow. It is independent of the client's comparator.
func (c *Cluster) ExecMetaLookup(addr string, startRow, stopRow []byte) (OpResult, *Region) {
	if c.Silent[addr] {
		c.attempt(addr, "hbase:meta,,1", "metascan", "silent")
		return OpResult{NoAnswer: true}, nil
	}
	if cls, ok := c.pop(c.SrvScript, addr); ok {
		c.attempt(addr, "hbase:meta,,1", "metascan", cls)
		return OpResult{Class: cls, Stack: "scripted server exception"}, nil
	}
	if addr != c.MetaAddr {
		c.attempt(addr, "hbase:meta,,1", "metascan", ClsNSRE)
		return OpResult{Class: ClsNSRE, Stack: "hbase:meta is not online on " + addr}, nil
	}
	if cls, ok := c.pop(c.Script, "hbase:meta,,1"); ok {
		c.attempt(addr, "hbase:meta,,1", "metascan", cls)
		return OpResult{Class: cls, Stack: "scripted meta exception"}, nil
	}
	c.attempt(addr, "hbase:meta,,1", "metascan", "ok")
	st, sk, si := splitRegionName(startRow)
	rs := append(append([]*Region(nil), c.Regions...), c.StaleRows...)
	sort.Slice(rs, func(i, j int) bool {
		at, ak, ai := splitRegionName(rs[i].Name())
		bt, bk, bi := splitRegionName(rs[j].Name())
		return cmpNames(at, ak, ai, bt, bk, bi) < 0
	})
	var best *Region
	for _, r := range rs {
		t, k, i := splitRegionName(r.Name())
		if cmpNames(t, k, i, st, sk, si) <= 0 && bytes.Compare(t, stopRow) >= 0 {
			best = r
		}
	}
	ms := MetaScan{StartRow: string(startRow), At: c.Now()}
	if best == nil {
		c.MetaScans = append(c.MetaScans, ms)
		return OpResult{}, nil
	}
	ms.Found = string(best.Name())
	c.MetaScans = append(c.MetaScans, ms)
	return OpResult{Cells: MetaCells(best)}, best
}

// ExecMetaScanAll serves the forward scan of hbase:meta over [startRow, stopRow) that
// CacheRegions uses: the meta rows of every region whose name lies in the range, in order.
func (c *Cluster) ExecMetaScanAll(addr string, startRow, stopRow []byte) (OpResult, []*Region) {
	if c.Silent[addr] {
		c.attempt(addr, "hbase:meta,,1", "metascan", "silent")
		return OpResult{NoAnswer: true}, nil
	}
	if cls, ok := c.pop(c.SrvScript, addr); ok {
		c.attempt(addr, "hbase:meta,,1", "metascan", cls)
		return OpResult{Class: cls, Stack: "scripted server exception"}, nil
	}
	if addr != c.MetaAddr {
		c.attempt(addr, "hbase:meta,,1", "metascan", ClsNSRE)
		return OpResult{Class: ClsNSRE, Stack: "hbase:meta is not online on " + addr}, nil
	}
	if cls, ok := c.pop(c.Script, "hbase:meta,,1"); ok {
		c.attempt(addr, "hbase:meta,,1", "metascan", cls)
		return OpResult{Class: cls, Stack: "scripted meta exception"}, nil
	}
	c.attempt(addr, "hbase:meta,,1", "metascan", "ok")
	rs := append(append([]*Region(nil), c.Regions...), c.StaleRows...)
	sort.Slice(rs, func(i, j int) bool {
		at, ak, ai := splitRegionName(rs[i].Name())
		bt, bk, bi := splitRegionName(rs[j].Name())
		return cmpNames(at, ak, ai, bt, bk, bi) < 0
	})
	var out []*Region
	for _, r := range rs {
		n := r.Name()
		if bytes.Compare(n, startRow) >= 0 && (len(stopRow) == 0 || bytes.Compare(n, stopRow) < 0) {
			out = append(out, r)
		}
	}
	c.MetaScans = append(c.MetaScans, MetaScan{StartRow: string(startRow), At: c.Now(), Found: fmt.Sprintf("%d regions", len(out))})
	return OpResult{}, out
}

// ZKAttempt notes that a ZooKeeper lookup has started (it may never be answered).
func (c *Cluster) ZKAttempt() { c.ZKLookups = append(c.ZKLookups, c.Now()) }

// ZKLocate answers a ZooKeeper lookup for meta or master.
func (c *Cluster) ZKLocate(master bool) (string, error) {
	if len(c.ZKScript) > 0 {
		e := c.ZKScript[0]
		c.ZKScript = c.ZKScript[1:]
		if e != "" {
			return "", fmt.Errorf("zk: %s", e)
		}
	}
	if master {
		return c.MasterAddr, nil
	}
	return c.MetaAddr, nil
}
