package sim

import (
	"bytes"
	"context"
	"fmt"
	"net"
	"sort"

	"github.com/tsuna/gohbase/pb"
	"google.golang.org/protobuf/proto"

	"verif/vrt"
)

// Region of the simulated cluster.
type Region struct {
	Table       string
	Start, Stop []byte
	ID          uint64
	Server      string
}

func (r *Region) Name() []byte {
	return []byte(fmt.Sprintf("%s,%s,%d.%08x.", r.Table, r.Start, r.ID, len(r.Stop)*31+len(r.Start)))
}
func (r *Region) Contains(key []byte) bool {
	return bytes.Compare(key, r.Start) >= 0 && (len(r.Stop) == 0 || bytes.Compare(key, r.Stop) < 0)
}

// Exec is one executed request as seen by a server.
type Exec struct {
	Server, Region, Method string
	Key                    []byte
}

// Cluster is the simulated HBase cluster.
type Cluster struct {
	Regions   []*Region
	MetaAddr  string
	Dials     map[string]int
	Open      map[string]int
	Conns     []*Conn
	Log       []Exec
	MetaScans int
	Errors    []string // protocol errors seen by servers (independent decoder)
}

func NewCluster(meta string) *Cluster {
	return &Cluster{MetaAddr: meta, Dials: map[string]int{}, Open: map[string]int{}}
}


func cmpTuple(at, ak, ai, bt, bk, bi []byte) int {
	if c := bytes.Compare(at, bt); c != 0 {
		return c
	}
	if c := bytes.Compare(ak, bk); c != 0 {
		return c
	}
	return bytes.Compare(ai, bi)
}

func splitName(n []byte) (t, k, i []byte) {
	a := bytes.IndexByte(n, ',')
	b := bytes.LastIndexByte(n, ',')
	if a < 0 {
		return n, nil, nil
	}
	if b == a {
		return n[:a], n[a+1:], nil
	}
	return n[:a], n[a+1 : b], n[b+1:]
}

func (c *Cluster) byName(name []byte) *Region {
	for _, r := range c.Regions {
		if bytes.Equal(r.Name(), name) {
			return r
		}
	}
	return nil
}

func metaCells(r *Region) []KV {
	ns, tb := []byte("default"), []byte(r.Table)
	if i := bytes.IndexByte(tb, ':'); i >= 0 {
		ns, tb = tb[:i], tb[i+1:]
	}
	ri, _ := proto.Marshal(&pb.RegionInfo{RegionId: proto.Uint64(r.ID),
		TableName: &pb.TableName{Namespace: ns, Qualifier: tb}, StartKey: r.Start, EndKey: r.Stop})
	n := r.Name()
	return []KV{
		{Row: n, Family: []byte("info"), Qualifier: []byte("regioninfo"), Value: append([]byte("PBUF"), ri...), TS: 1, Type: 4},
		{Row: n, Family: []byte("info"), Qualifier: []byte("server"), Value: []byte(r.Server), TS: 1, Type: 4},
	}
}

func excResp(class, msg string) *pb.ExceptionResponse {
	return &pb.ExceptionResponse{ExceptionClassName: proto.String(class), StackTrace: proto.String(msg)}
}

// exec handles one request on server addr.
func (c *Cluster) exec(addr string, f *Frame) (proto.Message, *pb.ExceptionResponse, []KV) {
	switch req := f.Req.(type) {
	case *pb.ScanRequest:
		if string(req.GetRegion().GetValue()) != "hbase:meta,,1" || addr != c.MetaAddr {
			return nil, excResp("org.apache.hadoop.hbase.NotServingRegionException", "not meta"), nil
		}
		c.MetaScans++
		st, sk, si := splitName(req.GetScan().GetStartRow())
		stop := req.GetScan().GetStopRow()
		var best *Region
		rs := append([]*Region(nil), c.Regions...)
		sort.Slice(rs, func(i, j int) bool {
			at, ak, ai := splitName(rs[i].Name())
			bt, bk, bi := splitName(rs[j].Name())
			return cmpTuple(at, ak, ai, bt, bk, bi) < 0
		})
		for _, r := range rs {
			t, k, i := splitName(r.Name())
			if cmpTuple(t, k, i, st, sk, si) <= 0 && bytes.Compare(t, stop) >= 0 {
				best = r
			}
		}
		resp := &pb.ScanResponse{MoreResults: proto.Bool(false), MoreResultsInRegion: proto.Bool(false)}
		if best == nil {
			return resp, nil, nil
		}
		resp.CellsPerResult = []uint32{2}
		resp.PartialFlagPerResult = []bool{false}
		return resp, nil, metaCells(best)
	case *pb.GetRequest:
		if string(req.GetRegion().GetValue()) == "hbase:meta,,1" && addr == c.MetaAddr {
			return &pb.GetResponse{Result: &pb.Result{Exists: proto.Bool(false)}}, nil, nil
		}
		r := c.byName(req.GetRegion().GetValue())
		if r == nil || r.Server != addr || !r.Contains(req.GetGet().GetRow()) {
			return nil, excResp("org.apache.hadoop.hbase.NotServingRegionException", "nsre"), nil
		}
		c.Log = append(c.Log, Exec{addr, string(r.Name()), "Get", req.GetGet().GetRow()})
		if req.GetGet().GetExistenceOnly() {
			return &pb.GetResponse{Result: &pb.Result{Exists: proto.Bool(false)}}, nil, nil
		}
		n := int32(1)
		return &pb.GetResponse{Result: &pb.Result{AssociatedCellCount: &n}}, nil,
			[]KV{{Row: req.GetGet().GetRow(), Family: []byte("f"), Qualifier: []byte("q"),
				Value: append([]byte("v:"), req.GetGet().GetRow()...), TS: 7, Type: 4}}
	case *pb.MultiRequest:
		resp := &pb.MultiResponse{}
		var cells []KV
		for _, ra := range req.GetRegionAction() {
			rar := &pb.RegionActionResult{}
			r := c.byName(ra.GetRegion().GetValue())
			for _, a := range ra.GetAction() {
				var row []byte
				if a.Get != nil {
					row = a.Get.GetRow()
				} else {
					row = a.Mutation.GetRow()
				}
				if r == nil || r.Server != addr || !r.Contains(row) {
					rar.ResultOrException = append(rar.ResultOrException, &pb.ResultOrException{Index: a.Index,
						Exception: &pb.NameBytesPair{Name: proto.String("org.apache.hadoop.hbase.NotServingRegionException"), Value: []byte("nsre")}})
					continue
				}
				c.Log = append(c.Log, Exec{addr, string(r.Name()), "Multi", row})
				if a.Get != nil {
					n := int32(1)
					rar.ResultOrException = append(rar.ResultOrException, &pb.ResultOrException{Index: a.Index,
						Result: &pb.Result{AssociatedCellCount: &n}})
					cells = append(cells, KV{Row: row, Family: []byte("f"), Qualifier: []byte("q"),
						Value: append([]byte("v:"), row...), TS: 7, Type: 4})
				} else {
					rar.ResultOrException = append(rar.ResultOrException, &pb.ResultOrException{Index: a.Index,
						Result: &pb.Result{}})
				}
			}
			resp.RegionActionResult = append(resp.RegionActionResult, rar)
		}
		return resp, nil, cells
	}
	return nil, excResp("org.apache.hadoop.hbase.DoNotRetryIOException", "unsupported"), nil
}

// Dialer returns a region dialer that attaches a server thread per connection.
func (c *Cluster) Dialer() func(ctx context.Context, network, addr string) (net.Conn, error) {
	return func(ctx context.Context, network, addr string) (net.Conn, error) {
		vrt.Yield("dial")
		c.Dials[addr]++
		c.Open[addr]++
		conn := &Conn{Name: addr}
		c.Conns = append(c.Conns, conn)
		vrt.GoNamed("srv:"+addr, func() { c.serve(addr, conn) })
		return conn, nil
	}
}

func (c *Cluster) serve(addr string, conn *Conn) {
	defer func() { c.Open[addr]-- }()
	vrt.Await("srv.preamble", func() bool {
		if conn.Closed {
			return true
		}
		if len(conn.C2S) < 10 {
			return false
		}
		return len(conn.C2S) >= 10+int(uint32(conn.C2S[6])<<24|uint32(conn.C2S[7])<<16|uint32(conn.C2S[8])<<8|uint32(conn.C2S[9]))
	})
	if conn.Closed {
		return
	}
	if string(conn.C2S[:6]) != "HBas\x00\x50" {
		c.Errors = append(c.Errors, "bad preamble")
	}
	hl := int(uint32(conn.C2S[6])<<24 | uint32(conn.C2S[7])<<16 | uint32(conn.C2S[8])<<8 | uint32(conn.C2S[9]))
	var ch pb.ConnectionHeader
	if err := proto.Unmarshal(conn.C2S[10:10+hl], &ch); err != nil {
		c.Errors = append(c.Errors, "bad connection header: "+err.Error())
	}
	conn.C2S = conn.C2S[10+hl:]
	for {
		vrt.Await("srv.frame", func() bool {
			_, _, ok := SplitFrame(conn.C2S)
			return ok || conn.Closed
		})
		if conn.Closed {
			return
		}
		var fb []byte
		fb, conn.C2S, _ = SplitFrame(conn.C2S)
		f, err := ParseRequest(fb)
		if err != nil {
			c.Errors = append(c.Errors, err.Error())
			conn.SrvClose = true
			return
		}
		resp, exc, cells := c.exec(addr, f)
		out := EncodeResponse(f.Header.GetCallId(), resp, exc, cells)
		vrt.Yield("srv.respond")
		conn.S2C = append(conn.S2C, out...)
	}
}
