package sim

import (
	"encoding/binary"
	"errors"
	"fmt"

	"github.com/tsuna/gohbase/pb"
	"google.golang.org/protobuf/encoding/protowire"
	"google.golang.org/protobuf/proto"
)

// KV is one decoded KeyValue.
type KV struct {
	Row, Family, Qualifier, Value []byte
	TS                            uint64
	Type                          byte
}

// ReadKV decodes one KeyValue (independent of hrpc).
func ReadKV(b []byte) (KV, int, error) {
	var kv KV
	if len(b) < 12 {
		return kv, 0, errors.New("kv: short header")
	}
	total := int(binary.BigEndian.Uint32(b))
	kl := int(binary.BigEndian.Uint32(b[4:]))
	vl := int(binary.BigEndian.Uint32(b[8:]))
	if total != 8+kl+vl || len(b) < 4+total || kl < 12 {
		return kv, 0, fmt.Errorf("kv: inconsistent lengths total=%d key=%d val=%d have=%d", total, kl, vl, len(b))
	}
	k := b[12 : 12+kl]
	rl := int(binary.BigEndian.Uint16(k))
	if 2+rl+1 > kl-9 {
		return kv, 0, errors.New("kv: row too long")
	}
	kv.Row = k[2 : 2+rl]
	fl := int(k[2+rl])
	if 2+rl+1+fl > kl-9 {
		return kv, 0, errors.New("kv: family too long")
	}
	kv.Family = k[3+rl : 3+rl+fl]
	kv.Qualifier = k[3+rl+fl : kl-9]
	kv.TS = binary.BigEndian.Uint64(k[kl-9:])
	kv.Type = k[kl-1]
	kv.Value = b[12+kl : 12+kl+vl]
	return kv, 4 + total, nil
}

// ReadKVs decodes a whole cellblock.
func ReadKVs(b []byte) ([]KV, error) {
	var out []KV
	for len(b) > 0 {
		kv, n, err := ReadKV(b)
		if err != nil {
			return nil, err
		}
		out = append(out, kv)
		b = b[n:]
	}
	return out, nil
}

// AppendKV encodes one KeyValue.
func AppendKV(dst []byte, kv KV) []byte {
	kl := 2 + len(kv.Row) + 1 + len(kv.Family) + len(kv.Qualifier) + 8 + 1
	var u4 [4]byte
	put4 := func(v int) { binary.BigEndian.PutUint32(u4[:], uint32(v)); dst = append(dst, u4[:]...) }
	put4(8 + kl + len(kv.Value))
	put4(kl)
	put4(len(kv.Value))
	dst = append(dst, byte(len(kv.Row)>>8), byte(len(kv.Row)))
	dst = append(dst, kv.Row...)
	dst = append(dst, byte(len(kv.Family)))
	dst = append(dst, kv.Family...)
	dst = append(dst, kv.Qualifier...)
	var u8 [8]byte
	binary.BigEndian.PutUint64(u8[:], kv.TS)
	dst = append(dst, u8[:]...)
	dst = append(dst, kv.Type)
	dst = append(dst, kv.Value...)
	return dst
}

// Frame is one decoded client request frame.
type Frame struct {
	Header *pb.RequestHeader
	Req    proto.Message
	Cells  []KV
	Raw    []byte
}

// SplitFrame returns the first complete length-prefixed frame of buf.
func SplitFrame(buf []byte) (frame, rest []byte, ok bool) {
	if len(buf) < 4 {
		return nil, buf, false
	}
	n := int(binary.BigEndian.Uint32(buf))
	if len(buf) < 4+n {
		return nil, buf, false
	}
	return buf[4 : 4+n], buf[4+n:], true
}

// ParseRequest decodes a request frame body (without the length prefix).
func ParseRequest(b []byte) (*Frame, error) { return ParseRequestC(b, false) }

// ParseRequestC is ParseRequest for a connection whose cellblocks are
// block-compressed (snappy) when compressed is true.
func ParseRequestC(b []byte, compressed bool) (*Frame, error) {
	f := &Frame{Raw: b, Header: &pb.RequestHeader{}}
	hb, n := protowire.ConsumeBytes(b)
	if n < 0 {
		return nil, errors.New("frame: bad header delimiter")
	}
	if err := proto.Unmarshal(hb, f.Header); err != nil {
		return nil, fmt.Errorf("frame: header: %v", err)
	}
	b = b[n:]
	switch f.Header.GetMethodName() {
	case "Get":
		f.Req = &pb.GetRequest{}
	case "Mutate":
		f.Req = &pb.MutateRequest{}
	case "Scan":
		f.Req = &pb.ScanRequest{}
	case "Multi":
		f.Req = &pb.MultiRequest{}
	default:
		return nil, fmt.Errorf("frame: unknown method %q", f.Header.GetMethodName())
	}
	rb, n := protowire.ConsumeBytes(b)
	if n < 0 {
		return nil, errors.New("frame: bad request delimiter")
	}
	if err := proto.Unmarshal(rb, f.Req); err != nil {
		return nil, fmt.Errorf("frame: request: %v", err)
	}
	b = b[n:]
	cbl := int(f.Header.GetCellBlockMeta().GetLength())
	if cbl != len(b) {
		return nil, fmt.Errorf("frame: cell_block_meta.length=%d but %d trailing bytes", cbl, len(b))
	}
	if compressed && len(b) > 0 {
		dec, err := BlockStreamDecode(b)
		if err != nil {
			return nil, fmt.Errorf("frame: compressed cellblocks: %v", err)
		}
		b = dec
	}
	cells, err := ReadKVs(b)
	if err != nil {
		return nil, err
	}
	f.Cells = cells
	return f, nil
}

// EncodeResponse builds a response frame (with length prefix).
func EncodeResponse(callID uint32, resp proto.Message, exc *pb.ExceptionResponse, cells []KV) []byte {
	return EncodeResponseC(callID, resp, exc, cells, false)
}

// EncodeResponseC is EncodeResponse with optionally block-compressed cellblocks.
func EncodeResponseC(callID uint32, resp proto.Message, exc *pb.ExceptionResponse, cells []KV, compressed bool) []byte {
	hdr := &pb.ResponseHeader{CallId: &callID, Exception: exc}
	var cb []byte
	for _, c := range cells {
		cb = AppendKV(cb, c)
	}
	if compressed && len(cb) > 0 {
		cb = BlockStreamEncode([][][]byte{{cb}}, SnappyEncodeLiteral)
	}
	if len(cb) > 0 {
		l := uint32(len(cb))
		hdr.CellBlockMeta = &pb.CellBlockMeta{Length: &l}
	}
	hb, _ := proto.Marshal(hdr)
	var body []byte
	body = protowire.AppendBytes(body, hb)
	if exc == nil && resp != nil {
		rb, _ := proto.Marshal(resp)
		body = protowire.AppendBytes(body, rb)
	}
	body = append(body, cb...)
	out := make([]byte, 4, 4+len(body))
	binary.BigEndian.PutUint32(out, uint32(len(body)))
	return append(out, body...)
}

// EncodeRawResponse builds a response frame from an explicit header (which may
// be malformed on purpose), an optional body and raw trailing bytes.
func EncodeRawResponse(hdr *pb.ResponseHeader, resp proto.Message, trailer []byte) []byte {
	hb, _ := proto.Marshal(hdr)
	var body []byte
	body = protowire.AppendBytes(body, hb)
	if resp != nil {
		rb, _ := proto.Marshal(resp)
		body = protowire.AppendBytes(body, rb)
	}
	body = append(body, trailer...)
	out := make([]byte, 4, 4+len(body))
	binary.BigEndian.PutUint32(out, uint32(len(body)))
	return append(out, body...)
}

// Exc builds an exception response header payload.
func Exc(class, msg string) *pb.ExceptionResponse {
	return &pb.ExceptionResponse{ExceptionClassName: proto.String(class), StackTrace: proto.String(msg)}
}
