package sim

import (
	"encoding/binary"
	"time"

	"github.com/tsuna/gohbase/pb"
	"google.golang.org/protobuf/proto"

	"verif/vrt"
)

// Server is the scripted regionserver end of one Conn. It decodes with the
// independent codec of this package and lets the harness decide the answers.
type Server struct {
	Conn    *Conn
	Stop    bool     // harness asks the thread to exit
	Errors  []string // protocol errors seen by the independent decoder
	Header  *pb.ConnectionHeader
	Frames  []*Frame // every request frame decoded, in arrival order
	// OnFrame is called in the server thread for every decoded frame.
	OnFrame func(s *Server, f *Frame)
	// MaxFrames makes the thread exit after that many frames (0 = unlimited).
	MaxFrames int
	// Compressed: the connection negotiated cellblock compression.
	Compressed bool
}

func be32(b []byte) int { return int(binary.BigEndian.Uint32(b)) }

// Run is the server thread body.
func (s *Server) Run() {
	c := s.Conn
	dead := func() bool { return s.Stop || c.Closed }
	vrt.Await("srv.preamble", func() bool {
		if dead() {
			return true
		}
		return len(c.C2S) >= 10 && len(c.C2S) >= 10+be32(c.C2S[6:10])
	})
	if dead() {
		return
	}
	if string(c.C2S[:6]) != "HBas\x00\x50" {
		s.Errors = append(s.Errors, "bad preamble")
	}
	hl := be32(c.C2S[6:10])
	s.Header = &pb.ConnectionHeader{}
	if err := proto.Unmarshal(c.C2S[10:10+hl], s.Header); err != nil {
		s.Errors = append(s.Errors, "bad connection header: "+err.Error())
	}
	c.C2S = c.C2S[10+hl:]
	for (s.MaxFrames == 0 || len(s.Frames) < s.MaxFrames) && !c.SrvClose {
		vrt.Await("srv.frame", func() bool {
			_, _, ok := SplitFrame(c.C2S)
			return ok || dead()
		})
		fb, rest, ok := SplitFrame(c.C2S)
		if !ok {
			return
		}
		c.C2S = rest
		f, err := ParseRequestC(fb, s.Compressed)
		if err != nil {
			s.Errors = append(s.Errors, err.Error())
			c.SrvClose = true
			return
		}
		s.Frames = append(s.Frames, f)
		if s.OnFrame != nil {
			s.OnFrame(s, f)
		}
	}
}

// Send appends raw bytes to the server->client stream (a scheduling point).
func (s *Server) Send(b []byte) {
	vrt.Yield("srv.send")
	if s.Conn.SrvClose || s.Conn.Closed {
		return // nothing can be sent on a closed connection
	}
	s.Conn.S2C = append(s.Conn.S2C, b...)
}

// CloseConn closes the server side (client sees EOF after draining).
func (s *Server) CloseConn() {
	vrt.Yield("srv.close")
	s.Conn.SrvClose = true
}

// ServeReal is the pass-through (free-running) counterpart of Run: a real
// goroutine that polls the connection under the harness lock and answers every
// decoded frame with respond's bytes. It returns when the client closes.
func (s *Server) ServeReal(respond func(f *Frame) []byte) {
	c := s.Conn
	pre := false
	for {
		vrt.HLock()
		if c.Closed || s.Stop {
			vrt.HUnlock()
			return
		}
		if !pre && len(c.C2S) >= 10 && len(c.C2S) >= 10+be32(c.C2S[6:10]) {
			c.C2S = c.C2S[10+be32(c.C2S[6:10]):]
			pre = true
		}
		for pre {
			fb, rest, ok := SplitFrame(c.C2S)
			if !ok {
				break
			}
			c.C2S = rest
			f, err := ParseRequestC(fb, s.Compressed)
			if err != nil {
				s.Errors = append(s.Errors, err.Error())
				c.SrvClose = true
				break
			}
			s.Frames = append(s.Frames, f)
			c.S2C = append(c.S2C, respond(f)...)
		}
		vrt.HUnlock()
		time.Sleep(100 * time.Microsecond)
	}
}
