// Package sim contains the simulated network and cluster used by harnesses.
package sim

import (
	"errors"
	"fmt"
	"io"
	"net"
	"os"
	"time"

	"verif/vrt"
)

// Fault makes the At-th operation (1-based, counted over Read, Write,
// SetReadDeadline, SetWriteDeadline and Close calls of the client) fail.
type Fault struct {
	At      int
	Partial int // Write only: bytes delivered before the error (-1: all but one)
}

// Conn is the client side of an in-memory connection. Every method is a
// scheduling point of the controlled runtime; deadlines live on the virtual clock.
type Conn struct {
	Name     string
	C2S      []byte // bytes written by the client, not yet consumed by the server
	S2C      []byte // bytes written by the server, not yet read by the client
	Closed   bool   // closed by the client
	SrvClose bool   // closed by the server (EOF after S2C drains)
	RDL      time.Time
	WDL      time.Time
	Ops      int
	Writes   [][]byte // every successful client Write, in order
	All      []byte   // every byte the client ever delivered
	MaxRead  int      // 0 = unlimited; otherwise Read returns at most MaxRead bytes (short reads)
	Faults   []Fault
	Faulted  []string // which ops were faulted
	OpLog    []string
	CloseN   int
	RDLSets  int
	rdlTimer *vrt.Timer
	// OnClose is called when the client closes the connection.
	OnClose func()
	// BlockWrites makes Write block (full send buffer) until cleared or the connection is closed.
	BlockWrites bool
}

func (c *Conn) fault(kind string) *Fault {
	c.Ops++
	c.OpLog = append(c.OpLog, kind)
	for i := range c.Faults {
		if c.Faults[i].At == c.Ops {
			c.Faulted = append(c.Faulted, fmt.Sprintf("%s#%d", kind, c.Ops))
			return &c.Faults[i]
		}
	}
	return nil
}

type addr string

func (a addr) Network() string { return "sim" }
func (a addr) String() string  { return string(a) }

func (c *Conn) readable() bool {
	return len(c.S2C) > 0 || c.Closed || c.SrvClose ||
		(!c.RDL.IsZero() && !vrt.Now().Before(c.RDL))
}

func (c *Conn) Read(p []byte) (int, error) {
	if !vrt.Active() {
		// pass-through (free-running -race pass): poll under the harness lock
		for {
			vrt.HLock()
			if c.readable() {
				n, err := c.readLocked(p)
				vrt.HUnlock()
				return n, err
			}
			vrt.HUnlock()
			time.Sleep(50 * time.Microsecond)
		}
	}
	if c.fault("read") != nil {
		vrt.Yield("conn.Read")
		return 0, errors.New("sim: injected read error")
	}
	vrt.Await("conn.Read", c.readable)
	return c.readLocked(p)
}

func (c *Conn) readLocked(p []byte) (int, error) {
	if c.Closed {
		return 0, net.ErrClosed
	}
	if len(c.S2C) > 0 {
		n := len(p)
		if c.MaxRead > 0 && n > c.MaxRead {
			n = c.MaxRead
		}
		n = copy(p[:n], c.S2C)
		c.S2C = c.S2C[n:]
		return n, nil
	}
	if c.SrvClose {
		return 0, io.EOF
	}
	return 0, os.ErrDeadlineExceeded
}

func (c *Conn) Write(p []byte) (int, error) {
	vrt.HLock()
	defer vrt.HUnlock()
	f := c.fault("write")
	vrt.Yield("conn.Write")
	if c.BlockWrites {
		vrt.Await("conn.Write(blocked)", func() bool { return !c.BlockWrites || c.Closed })
	}
	if f != nil {
		n := f.Partial
		if n < 0 {
			n = len(p) + n
		}
		if n > len(p) {
			n = len(p)
		}
		if n < 0 {
			n = 0
		}
		c.C2S = append(c.C2S, p[:n]...)
		c.All = append(c.All, p[:n]...)
		return n, errors.New("sim: injected write error")
	}
	if c.Closed {
		return 0, net.ErrClosed
	}
	if c.SrvClose {
		return 0, errors.New("sim: broken pipe")
	}
	c.C2S = append(c.C2S, p...)
	c.All = append(c.All, p...)
	c.Writes = append(c.Writes, append([]byte(nil), p...))
	return len(p), nil
}

func (c *Conn) Close() error {
	vrt.HLock()
	defer vrt.HUnlock()
	f := c.fault("close")
	vrt.Yield("conn.Close")
	c.CloseN++
	if c.Closed {
		return net.ErrClosed
	}
	c.Closed = true
	if c.OnClose != nil {
		c.OnClose()
	}
	if f != nil {
		return errors.New("sim: injected close error")
	}
	return nil
}

func (c *Conn) LocalAddr() net.Addr  { return addr("client") }
func (c *Conn) RemoteAddr() net.Addr { return addr(c.Name) }
func (c *Conn) SetDeadline(t time.Time) error {
	if err := c.SetReadDeadline(t); err != nil {
		return err
	}
	return c.SetWriteDeadline(t)
}

func (c *Conn) SetReadDeadline(t time.Time) error {
	vrt.HLock()
	defer vrt.HUnlock()
	f := c.fault("setrdl")
	vrt.Yield("conn.SetReadDeadline")
	if f != nil {
		return errors.New("sim: injected deadline error")
	}
	if c.Closed {
		return net.ErrClosed
	}
	c.RDL = t
	c.RDLSets++
	if c.rdlTimer != nil {
		c.rdlTimer.Stop()
		c.rdlTimer = nil
	}
	if !t.IsZero() && vrt.Active() {
		// make sure virtual time can advance to the deadline
		c.rdlTimer = vrt.AfterFunc(t.Sub(vrt.Now()), func() {})
	}
	return nil
}

func (c *Conn) SetWriteDeadline(t time.Time) error {
	vrt.HLock()
	defer vrt.HUnlock()
	f := c.fault("setwdl")
	vrt.Yield("conn.SetWriteDeadline")
	if f != nil {
		return errors.New("sim: injected deadline error")
	}
	if c.Closed {
		return net.ErrClosed
	}
	c.WDL = t
	return nil
}
