// Package sim contains the simulated network used by harnesses.
package sim

import (
	"errors"
	"io"
	"net"
	"os"
	"time"

	"verif/vrt"
)

// Conn is the client side of an in-memory connection.
type Conn struct {
	Name     string
	C2S      []byte // bytes written by the client, not yet consumed by the server
	S2C      []byte // bytes written by the server, not yet read by the client
	Closed   bool   // closed by the client
	SrvClose bool   // closed by the server
	RDL      time.Time
	WDL      time.Time
	Ops      int
	Writes   [][]byte // every client Write call, in order
	MaxRead  int      // 0 = unlimited
	FailAt   int      // 1-based index of the faulted operation (0 = none)
	Partial  int      // for a faulted Write: bytes delivered before the error
	Faulted  string   // which op was faulted
	OpLog    []string
}

func (c *Conn) fault(kind string) bool {
	c.Ops++
	c.OpLog = append(c.OpLog, kind)
	if c.FailAt != 0 && c.Ops == c.FailAt {
		c.Faulted = kind
		return true
	}
	return false
}

type addr string

func (a addr) Network() string { return "sim" }
func (a addr) String() string  { return string(a) }

func (c *Conn) readable() bool {
	return len(c.S2C) > 0 || c.Closed || c.SrvClose ||
		(!c.RDL.IsZero() && !vrt.Now().Before(c.RDL))
}

func (c *Conn) Read(p []byte) (int, error) {
	if c.fault("read") {
		vrt.Yield("conn.Read")
		return 0, errors.New("sim: injected read error")
	}
	vrt.Await("conn.Read", c.readable)
	if c.Closed {
		return 0, net.ErrClosed
	}
	if len(c.S2C) > 0 {
		n := len(p)
		if c.MaxRead > 0 && n > c.MaxRead {
			n = c.MaxRead
		}
		n = copy(p[:n], c.S2C)
		c.S2C = c.S2C[n:]
		return n, nil
	}
	if c.SrvClose {
		return 0, io.EOF
	}
	return 0, os.ErrDeadlineExceeded
}

func (c *Conn) Write(p []byte) (int, error) {
	f := c.fault("write")
	vrt.Yield("conn.Write")
	if f {
		n := c.Partial
		if n > len(p) {
			n = len(p)
		}
		c.C2S = append(c.C2S, p[:n]...)
		return n, errors.New("sim: injected write error")
	}
	if c.Closed {
		return 0, net.ErrClosed
	}
	if c.SrvClose {
		return 0, errors.New("sim: broken pipe")
	}
	c.C2S = append(c.C2S, p...)
	c.Writes = append(c.Writes, append([]byte(nil), p...))
	return len(p), nil
}

func (c *Conn) Close() error {
	if c.Closed {
		return net.ErrClosed
	}
	c.Closed = true
	return nil
}

func (c *Conn) LocalAddr() net.Addr  { return addr("client") }
func (c *Conn) RemoteAddr() net.Addr { return addr(c.Name) }
func (c *Conn) SetDeadline(t time.Time) error {
	c.SetReadDeadline(t)
	return c.SetWriteDeadline(t)
}
func (c *Conn) SetReadDeadline(t time.Time) error {
	if c.fault("setrdl") {
		return errors.New("sim: injected deadline error")
	}
	if c.Closed {
		return net.ErrClosed
	}
	c.RDL = t
	if !t.IsZero() {
		// make sure virtual time can advance to the deadline
		vrt.AfterFunc(t.Sub(vrt.Now()), func() {})
	}
	return nil
}
func (c *Conn) SetWriteDeadline(t time.Time) error {
	if c.Closed {
		return net.ErrClosed
	}
	c.WDL = t
	return nil
}
