// vworker runs one shard of one property check and writes its statistics as JSON.
package main

import (
	"runtime/pprof"
	"encoding/json"
	"flag"
	"fmt"
	"os"
	"runtime/debug"
	"strconv"
	"strings"
	"sync/atomic"
	"syscall"
	"time"

	"verif/checks"
	"verif/explore"
	"verif/vrt"
)

type output struct {
	Property    string        `json:"property"`
	Level       string        `json:"level"`
	Technique   string        `json:"technique"`
	Rule        string        `json:"rule"`
	Assumptions []string      `json:"assumptions"`
	Shard       int           `json:"shard"`
	HasRace     bool          `json:"has_race"`
	HasArch32   bool          `json:"has_arch32"`
	WallS       float64       `json:"wall_s"`
	Stats       explore.Stats `json:"stats"`
}

func main() {
	prop := flag.String("prop", "", "property id")
	tier := flag.String("tier", "quick", "quick|thorough")
	shard := flag.Int("shard", 0, "shard index")
	nshards := flag.Int("nshards", 1, "number of shards")
	out := flag.String("out", "", "output file (default stdout)")
	replayDir := flag.String("replaydir", "", "directory for replay files")
	replay := flag.String("replay", "", "replay file to execute")
	budget := flag.Duration("budget", 0, "override the wall-clock budget")
	list := flag.Bool("list", false, "list properties")
	racePass := flag.Bool("racepass", false, "run the free-running bodies of the property (binary built with -race)")
	unit := flag.String("unit", "", "run only the directly enumerated unit with this name (isolated sub-process mode)")
	memLimit := flag.Uint64("rlimit-as", 16<<30, "address-space limit in bytes (0 = none)")
	directOnly := flag.Bool("directonly", false, "run only the directly enumerated part (the GOARCH=386 pass)")
	flag.Parse()
	if *memLimit > 0 {
		// a peer-declared length must never be able to take the sandbox down
		lim := syscall.Rlimit{Cur: *memLimit, Max: *memLimit}
		syscall.Setrlimit(syscall.RLIMIT_AS, &lim)
	}
	if *list {
		for _, id := range checks.IDs() {
			fmt.Println(id)
		}
		return
	}
	if f := os.Getenv("VERIF_CPUPROFILE"); f != "" {
		// debugging aid
		if fh, err := os.Create(f); err == nil {
			pprof.StartCPUProfile(fh)
			defer pprof.StopCPUProfile()
		}
	}
	debug.SetGCPercent(200)
	debug.SetMemoryLimit(2 << 30) // collect eagerly: damaged frames make the client reserve garbage lengths
	vrt.SelfTest()
	p := checks.Get(*prop)
	if p == nil {
		fmt.Fprintln(os.Stderr, "vworker: unknown property", *prop)
		os.Exit(2)
	}
	if *replay != "" {
		os.Exit(doReplay(p, *replay))
	}
	if *racePass {
		if p.Race == nil {
			fmt.Println("RACEPASS iterations=0 bodies=0")
			return
		}
		seed, _ := strconv.Atoi(os.Getenv("VERIF_SEED"))
		atomic.StoreUint32(&vrt.Perturb, uint32(seed)*2654435761|1)
		b := *budget
		if b == 0 {
			b = 20 * time.Second
		}
		deadline := time.Now().Add(b)
		bodies := p.Race()
		iters := 0
		for time.Now().Before(deadline) {
			for _, rb := range bodies {
				if err := rb.Run(iters); err != nil {
					fmt.Printf("RACEPASS-FUNCTIONAL-ERROR body=%s iter=%d: %v\n", rb.Name, iters, err)
					os.Exit(3)
				}
			}
			iters++
		}
		fmt.Printf("RACEPASS iterations=%d bodies=%d\n", iters, len(bodies))
		return
	}
	if *unit != "" {
		// isolated mode: exit 0 = held, 3 = finding (printed), anything else = crash
		r := explore.NewRunner(p.ID, 0, 1, time.Time{}, "")
		checks.SetIsolatedChild()
		found := false
		if p.Units != nil {
			for _, u := range p.UnitsByName(*unit) {
				found = true
				res, _ := explore.RunOnce(u, nil)
				if f := u.Check(res); f != nil {
					fmt.Printf("FINDING %s: %s\n", f.Class, f.Msg)
					os.Exit(3)
				}
				r.Stats.Executions++
			}
		}
		if !found && p.Direct != nil {
			p.Direct(&checks.Ctx{R: r, Thorough: true, Filter: *unit, Isolated: true})
		}
		for _, v := range r.Stats.Violations {
			fmt.Printf("FINDING %s: %s\n", v.Class, v.Msg)
		}
		if len(r.Stats.Violations) > 0 {
			os.Exit(3)
		}
		fmt.Printf("ran %d case(s)\n", r.Stats.Executions)
		os.Exit(0)
	}
	thorough := *tier == "thorough"
	b := p.Quick
	if thorough {
		b = p.Thorough
	}
	if *budget > 0 {
		b = *budget
	}
	t0 := time.Now()
	var deadline time.Time
	if b > 0 {
		deadline = t0.Add(b)
	}
	r := explore.NewRunner(p.ID, *shard, *nshards, deadline, *replayDir)
	if *directOnly {
		p.Units = nil
	}
	if p.Direct != nil {
		p.Direct(&checks.Ctx{R: r, Thorough: thorough})
		if r.Stats.BoundCompleted < 0 && p.Units == nil && !r.Stats.TimedOut {
			r.Stats.BoundCompleted = 0
		}
	}
	if p.Units != nil && thorough && os.Getenv("VERIF_UNIT_FILTER") == "" {
		// The passes of the iterative bounding are global (pass d runs every unit whose
		// bound is >= d), so a thorough tier that runs out of budget in a wide pass may have
		// completed a lower bound than the quick tier completes on its smaller set. Run the
		// quick configuration first: whatever happens afterwards, the thorough tier has
		// covered everything the quick tier covers.
		r.Explore(p.Units(false))
		if !r.Stats.TimedOut {
			r.Stats.Extra["quick_configuration_completed_in_shards"]++
		}
		r.Stats.BoundTarget, r.Stats.BoundCompleted = 0, -1
	}
	if p.Units != nil {
		units := p.Units(thorough)
		if f := os.Getenv("VERIF_UNIT_FILTER"); f != "" {
			// debugging aid: explore only the units whose name contains the filter
			var keep []*explore.Unit
			for _, u := range units {
				if strings.Contains(u.Name, f) {
					keep = append(keep, u)
				}
			}
			units = keep
		}
		r.Explore(units)
	}
	o := output{Property: p.ID, Level: p.Level, Technique: p.Technique, Rule: p.Rule, Assumptions: p.Assumptions,
		Shard: *shard, HasRace: p.Race != nil, HasArch32: p.Arch32, WallS: time.Since(t0).Seconds(), Stats: r.Stats}
	js, _ := json.Marshal(o)
	if *out == "" {
		os.Stdout.Write(js)
		fmt.Println()
	} else if err := os.WriteFile(*out, js, 0o644); err != nil {
		fmt.Fprintln(os.Stderr, "vworker:", err)
		os.Exit(2)
	}
}

func doReplay(p *checks.Prop, file string) int {
	raw, err := os.ReadFile(file)
	if err != nil {
		fmt.Fprintln(os.Stderr, "vworker:", err)
		return 2
	}
	var rp struct {
		Unit    string `json:"unit"`
		Class   string `json:"class"`
		Choices []int  `json:"choices"`
		Case    any    `json:"case"`
	}
	if err := json.Unmarshal(raw, &rp); err != nil {
		fmt.Fprintln(os.Stderr, "vworker:", err)
		return 2
	}
	if p.Units != nil {
		for _, th := range []bool{false, true} {
			for _, u := range p.Units(th) {
				if u.Name != rp.Unit {
					continue
				}
				vrt.Tracing = true
				res, div := explore.RunOnce(u, rp.Choices)
				for _, l := range res.Trace {
					fmt.Println("  ", l)
				}
				if div != "" {
					fmt.Println("REPLAY DIVERGED:", div)
					return 2
				}
				f := u.Check(res)
				if f == nil {
					fmt.Printf("replay of %s: property held (recorded class %q no longer occurs)\n", rp.Unit, rp.Class)
					return 0
				}
				fmt.Printf("replay of %s: class=%s\n%s\n", rp.Unit, f.Class, f.Msg)
				fmt.Printf("VIOLATION property=%s replay=%s\n", p.ID, file)
				return 1
			}
		}
	}
	if p.Direct != nil {
		r := explore.NewRunner(p.ID, 0, 1, time.Time{}, "")
		p.Direct(&checks.Ctx{R: r, Thorough: true, Filter: rp.Unit})
		for _, v := range r.Stats.Violations {
			fmt.Printf("replay of %s: class=%s\n%s\n", v.Unit, v.Class, v.Msg)
		}
		if len(r.Stats.Violations) > 0 {
			fmt.Printf("VIOLATION property=%s replay=%s\n", p.ID, file)
			return 1
		}
		fmt.Printf("replay of %s: property held\n", rp.Unit)
		return 0
	}
	fmt.Fprintln(os.Stderr, "vworker: unit not found:", rp.Unit)
	return 2
}
