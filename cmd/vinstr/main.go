// vinstr rewrites the concurrency constructs of selected packages so that they
// run on the vrt runtime, and emits a `go build -overlay` file.
package main

import (
	"encoding/json"
	"flag"
	"fmt"
	"os"
	"path/filepath"

	"verif/vinstr"
)

func main() {
	repo := flag.String("repo", "/repo", "module root of the code under test")
	out := flag.String("out", "", "output directory")
	vrt := flag.String("vrt", "verif/vrt", "import path of the runtime")
	flag.Parse()
	ov, stats, err := vinstr.Run(*repo, *out, *vrt, flag.Args())
	if err != nil {
		fmt.Fprintln(os.Stderr, "vinstr:", err)
		os.Exit(2)
	}
	js, _ := json.MarshalIndent(map[string]any{"Replace": ov}, "", " ")
	os.WriteFile(filepath.Join(*out, "overlay.json"), js, 0o644)
	fmt.Fprintf(os.Stderr, "vinstr: %d files %v\n", len(ov), stats)
}
