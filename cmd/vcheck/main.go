// vcheck is the entry point of every registered check:
//
//	vcheck <ID> [--tier quick|thorough] [--shards N] [--budget 90s] [--replay file]
//
// It instruments the current working tree of /repo (vinstr), builds the worker
// with `go build -overlay`, runs the sharded exploration, merges the results,
// writes /verif/evidence/<ID>.json and exits 0 / 1 (VIOLATION) / 2 (harness error).
package main

import (
	"bytes"
	"encoding/json"
	"flag"
	"fmt"
	"os"
	"os/exec"
	"path/filepath"
	"runtime"
	"sort"
	"strconv"
	"strings"
	"sync"
	"syscall"
	"time"

	"verif/explore"
	"verif/vinstr"
)

const repoDir = "/repo"

// srcDir is where the sources to instrument are read from: /repo, or a snapshot of it for
// background runs (VERIF_REPO); the overlay always targets /repo, which go.mod replaces.
var srcDir = func() string {
	if d := os.Getenv("VERIF_REPO"); d != "" {
		return d
	}
	return repoDir
}()

// verifDir is /verif; background runs from a snapshot (vp run) set VERIF_DIR.
var verifDir = func() string {
	if d := os.Getenv("VERIF_DIR"); d != "" {
		return d
	}
	return "/verif"
}()

type workerOut struct {
	Property    string        `json:"property"`
	Level       string        `json:"level"`
	Technique   string        `json:"technique"`
	Rule        string        `json:"rule"`
	Assumptions []string      `json:"assumptions"`
	Shard       int           `json:"shard"`
	HasRace     bool          `json:"has_race"`
	HasArch32   bool          `json:"has_arch32"`
	WallS       float64       `json:"wall_s"`
	Stats       explore.Stats `json:"stats"`
}

type knownFinding struct {
	Property string `json:"property"`
	Status   string `json:"status"` // open | fixed
	Class    string `json:"class"`
	What     string `json:"what"`
	Commit   string `json:"commit,omitempty"`
	Replay   string `json:"replay,omitempty"`
}

func die(format string, a ...any) {
	fmt.Fprintf(os.Stderr, "vcheck: HARNESS ERROR: "+format+"\n", a...)
	os.Exit(2)
}

func goEnv() []string {
	env := os.Environ()
	env = append(env, "GOFLAGS=-mod=mod", "GOPROXY=off", "GOSUMDB=off", "GOTOOLCHAIN=local")
	return env
}

// build instruments /repo and builds the worker binary into work.
func build(work string) string {
	instr := filepath.Join(work, "instr")
	os.RemoveAll(instr)
	os.MkdirAll(instr, 0o755)
	ov, stats, err := vinstr.Run(srcDir, instr, "verif/vrt", []string{
		"github.com/tsuna/gohbase", "github.com/tsuna/gohbase/region", "github.com/tsuna/gohbase/hrpc"})
	if err != nil {
		die("instrumenting %s failed: %v", srcDir, err)
	}
	if srcDir != repoDir {
		re := map[string]string{}
		for k, v := range ov {
			re[repoDir+strings.TrimPrefix(k, srcDir)] = v
		}
		ov = re
	}
	// in-package harness files
	ents, _ := filepath.Glob(filepath.Join(verifDir, "_inpkg", "*", "*.go"))
	for _, f := range ents {
		dir := filepath.Base(filepath.Dir(f))
		dst := repoDir
		if dir != "root" {
			dst = filepath.Join(repoDir, dir)
		}
		ov[filepath.Join(dst, "zz_verif_"+filepath.Base(f))] = f
	}
	js, _ := json.MarshalIndent(map[string]any{"Replace": ov}, "", " ")
	ovf := filepath.Join(work, "overlay.json")
	if err := os.WriteFile(ovf, js, 0o644); err != nil {
		die("%v", err)
	}
	keys := make([]string, 0, len(stats))
	for k := range stats {
		keys = append(keys, k)
	}
	sort.Strings(keys)
	var sb strings.Builder
	for _, k := range keys {
		fmt.Fprintf(&sb, " %s=%d", k, stats[k])
	}
	fmt.Printf("vcheck: instrumented %d files of /repo:%s\n", len(ov), sb.String())
	bin := filepath.Join(work, "vworker")
	cmd := exec.Command("go", "build", "-overlay", ovf, "-o", bin, "./cmd/vworker")
	cmd.Dir = verifDir
	cmd.Env = goEnv()
	var out bytes.Buffer
	cmd.Stdout, cmd.Stderr = &out, &out
	if err := cmd.Run(); err != nil {
		die("building the instrumented worker failed: %v\n%s", err, out.String())
	}
	return bin
}

// conformance runs the repository's own test suite against the rewritten sources in
// pass-through mode (no controlled run active: every vrt primitive forwards to the real
// one). It validates the rewriter, which is part of the trusted base.
func conformance(work string, race bool) int {
	const vpath = "github.com/tsuna/gohbase/zzvrt"
	instr := filepath.Join(work, "instr")
	os.MkdirAll(instr, 0o755)
	ov, stats, err := vinstr.Run(repoDir, instr, vpath, []string{
		"github.com/tsuna/gohbase", "github.com/tsuna/gohbase/region", "github.com/tsuna/gohbase/hrpc"})
	if err != nil {
		die("instrumenting /repo failed: %v", err)
	}
	// a copy of the runtime inside the gohbase module namespace
	root := filepath.Join(verifDir, "vrt")
	filepath.Walk(root, func(path string, info os.FileInfo, err error) error {
		if err != nil || info.IsDir() || !strings.HasSuffix(path, ".go") || strings.HasSuffix(path, "_test.go") {
			return nil
		}
		rel, _ := filepath.Rel(root, path)
		raw, _ := os.ReadFile(path)
		dst := filepath.Join(work, "zzvrt", rel)
		os.MkdirAll(filepath.Dir(dst), 0o755)
		os.WriteFile(dst, []byte(strings.ReplaceAll(string(raw), "\"verif/vrt", "\""+vpath)), 0o644)
		ov[filepath.Join(repoDir, "zzvrt", rel)] = dst
		return nil
	})
	js, _ := json.MarshalIndent(map[string]any{"Replace": ov}, "", " ")
	ovf := filepath.Join(work, "overlay.json")
	os.WriteFile(ovf, js, 0o644)
	args := []string{"test", "-overlay", ovf, "-vet=off", "-count=1", "-timeout", "20m"}
	if race {
		args = append(args, "-race")
	}
	args = append(args, "./...")
	cmd := exec.Command("go", args...)
	cmd.Dir = repoDir
	cmd.Env = goEnv()
	out, err := cmd.CombinedOutput()
	okPkgs, bad := 0, 0
	for _, l := range strings.Split(string(out), "\n") {
		if strings.HasPrefix(l, "ok ") {
			okPkgs++
		}
		if strings.HasPrefix(l, "FAIL") || strings.HasPrefix(l, "--- FAIL") || strings.Contains(l, "DATA RACE") {
			bad++
		}
	}
	fmt.Printf("vcheck: conformance (race=%v): rewrote %d files %v; repository test packages ok=%d failures=%d\n", race, len(ov), stats, okPkgs, bad)
	if err != nil || bad > 0 || okPkgs < 4 {
		fmt.Println(string(out))
		fmt.Fprintln(os.Stderr, "vcheck: HARNESS ERROR: the repository's tests do not pass on the rewritten sources")
		return 2
	}
	return 0
}

// racePass builds the worker with -race and runs the property's free-running bodies.
// It returns the number of iterations and the distinct race reports (keyed by their
// gohbase frames).
func racePass(work, id, tier string, seed int) (int, map[string]string, string) {
	bin := filepath.Join(work, "vworker.race")
	cmd := exec.Command("go", "build", "-race", "-overlay", filepath.Join(work, "overlay.json"), "-o", bin, "./cmd/vworker")
	cmd.Dir = verifDir
	cmd.Env = goEnv()
	if out, err := cmd.CombinedOutput(); err != nil {
		die("building the -race worker failed: %v\n%s", err, out)
	}
	budget := "20s"
	if tier == "thorough" {
		budget = "180s"
	}
	run := exec.Command(bin, "-prop", id, "-racepass", "-budget", budget, "-rlimit-as", "0")
	run.Env = append(os.Environ(), "GORACE=halt_on_error=0 exitcode=0 history_size=3", fmt.Sprintf("VERIF_SEED=%d", seed))
	var ob bytes.Buffer
	run.Stdout, run.Stderr = &ob, &ob
	if err := run.Start(); err != nil {
		die("starting the -race worker failed: %v", err)
	}
	// every body bounds its own waits; a pass that still does not finish has a client call
	// (QueueRPC, Close, ...) blocked for good: ask for the goroutine dump, then kill it
	bd, _ := time.ParseDuration(budget)
	hung := false
	watchdog := time.AfterFunc(bd+150*time.Second, func() {
		hung = true
		run.Process.Signal(syscall.SIGQUIT)
		time.Sleep(5 * time.Second)
		run.Process.Kill()
	})
	err := run.Wait()
	watchdog.Stop()
	text := ob.String()
	if hung {
		msg := "the free-running pass did not finish: a client call is blocked for good"
		if i := strings.Index(text, "SIGQUIT"); i >= 0 {
			msg += "\n" + tail(text[i:], 6000)
		}
		return 0, nil, msg
	}
	iters := 0
	for _, l := range strings.Split(text, "\n") {
		if strings.HasPrefix(l, "RACEPASS iterations=") {
			fmt.Sscanf(l, "RACEPASS iterations=%d", &iters)
		}
	}
	if strings.Contains(text, "RACEPASS-FUNCTIONAL-ERROR") {
		i := strings.Index(text, "RACEPASS-FUNCTIONAL-ERROR")
		return iters, nil, tail(text[i:], 12000)
	}
	if err != nil && iters == 0 {
		if i := strings.Index(text, "panic: "); i >= 0 && strings.Contains(text, "github.com/tsuna/gohbase") {
			// the client itself panicked on a real goroutine: that is a finding, not a harness failure
			return iters, nil, "the client panicked in the free-running pass: " + tail(text[i:], 1500)
		}
		die("the -race worker failed: %v\n%s", err, tail(text, 3000))
	}
	reports := map[string]string{}
	for _, blk := range strings.Split(text, "WARNING: DATA RACE")[1:] {
		if i := strings.Index(blk, "=================="); i >= 0 {
			blk = blk[:i]
		}
		var frames []string
		lines := strings.Split(blk, "\n")
		for _, l := range lines {
			l = strings.TrimSpace(l)
			if strings.HasPrefix(l, "github.com/tsuna/gohbase") && !strings.Contains(l, "zz_verif") {
				fn := l
				if j := strings.IndexByte(fn, '('); j > 0 && strings.HasSuffix(fn, ")") {
					fn = fn[:strings.LastIndexByte(fn, '(')]
				}
				fn = strings.TrimPrefix(fn, "github.com/tsuna/gohbase/")
				if len(frames) == 0 || frames[len(frames)-1] != fn {
					frames = append(frames, fn)
				}
			}
		}
		if len(frames) == 0 {
			frames = []string{"(harness only)"}
		}
		if len(frames) > 2 {
			frames = []string{frames[0], frames[len(frames)/2]}
		}
		key := strings.Join(frames, " / ")
		if _, ok := reports[key]; !ok {
			reports[key] = "WARNING: DATA RACE" + tail(blk, 2500)
		}
	}
	return iters, reports, ""
}

// arch32Pass builds the worker for GOARCH=386 and runs the directly enumerated part of
// the property in it: the same inputs, decided where int has 32 bits. Scheduler units are
// left out (their frames ask a 32-bit address space for more than it has).
func arch32Pass(work, id, tier, replayDir string, shards int) *explore.Stats {
	bin := filepath.Join(work, "vworker.386")
	cmd := exec.Command("go", "build", "-overlay", filepath.Join(work, "overlay.json"), "-o", bin, "./cmd/vworker")
	cmd.Dir = verifDir
	cmd.Env = append(goEnv(), "GOARCH=386", "CGO_ENABLED=0")
	if out, err := cmd.CombinedOutput(); err != nil {
		die("building the GOARCH=386 worker failed: %v\n%s", err, out)
	}
	outs := make([]*workerOut, shards)
	errs := make([]string, shards)
	var wg sync.WaitGroup
	for i := 0; i < shards; i++ {
		wg.Add(1)
		go func(i int) {
			defer wg.Done()
			of := filepath.Join(work, fmt.Sprintf("arch32-shard%d.json", i))
			c := exec.Command(bin, "-prop", id, "-tier", tier, "-shard", strconv.Itoa(i), "-nshards", strconv.Itoa(shards),
				"-out", of, "-replaydir", replayDir, "-directonly", "-rlimit-as", "0")
			c.Env = append(os.Environ(), "GOMAXPROCS=1", "GOTRACEBACK=single")
			if out, err := c.CombinedOutput(); err != nil {
				errs[i] = fmt.Sprintf("GOARCH=386 worker %d: %v\n%s", i, err, tail(string(out), 3000))
				return
			}
			raw, err := os.ReadFile(of)
			if err != nil {
				errs[i] = err.Error()
				return
			}
			var o workerOut
			if err := json.Unmarshal(raw, &o); err != nil {
				errs[i] = "bad GOARCH=386 worker output: " + err.Error()
				return
			}
			outs[i] = &o
		}(i)
	}
	wg.Wait()
	for _, e := range errs {
		if e != "" {
			die("%s", e)
		}
	}
	var m explore.Stats
	m.BoundCompleted = 1 << 30
	for _, o := range outs {
		explore.Merge(&m, &o.Stats)
	}
	return &m
}

func tail(s string, n int) string {
	if len(s) > n {
		return s[:n]
	}
	return s
}

func main() {
	tier := flag.String("tier", "", "quick|thorough (default $VERIF_TIER or quick)")
	shards := flag.Int("shards", 0, "worker processes (default min(16, NumCPU))")
	budget := flag.Duration("budget", 0, "override per-worker budget")
	replay := flag.String("replay", "", "replay one recorded case")
	keep := flag.Bool("keep", false, "keep the work directory")
	args := os.Args[1:]
	if len(args) < 1 || strings.HasPrefix(args[0], "-") {
		fmt.Fprintln(os.Stderr, "usage: vcheck <ID> [--tier quick|thorough] [--replay file]")
		os.Exit(2)
	}
	id := args[0]
	flag.CommandLine.Parse(args[1:])
	if *tier == "" {
		*tier = os.Getenv("VERIF_TIER")
	}
	if *tier != "thorough" {
		*tier = "quick"
	}
	seed, _ := strconv.Atoi(os.Getenv("VERIF_SEED"))
	if *shards == 0 {
		*shards = runtime.NumCPU()
		if *shards > 16 {
			*shards = 16
		}
	}
	t0 := time.Now()
	work := filepath.Join(verifDir, ".work", id)
	if *replay != "" {
		work += "-replay"
	}
	os.RemoveAll(work)
	os.MkdirAll(work, 0o755)
	if !*keep {
		defer os.RemoveAll(work)
	}
	if id == "CONFORMANCE" {
		rc := conformance(work, *tier == "thorough")
		os.RemoveAll(work)
		os.Exit(rc)
	}
	bin := build(work)
	tBuild := time.Since(t0)

	if *replay != "" {
		if strings.Contains(*replay, "arch32") {
			// recorded by the GOARCH=386 pass: replay it where it was found
			bin = filepath.Join(work, "vworker.386")
			b := exec.Command("go", "build", "-overlay", filepath.Join(work, "overlay.json"), "-o", bin, "./cmd/vworker")
			b.Dir = verifDir
			b.Env = append(goEnv(), "GOARCH=386", "CGO_ENABLED=0")
			if out, err := b.CombinedOutput(); err != nil {
				die("building the GOARCH=386 worker failed: %v\n%s", err, out)
			}
		}
		cmd := exec.Command(bin, "-prop", id, "-replay", *replay)
		cmd.Stdout, cmd.Stderr = os.Stdout, os.Stderr
		cmd.Env = append(os.Environ(), "GOMAXPROCS=2")
		err := cmd.Run()
		if !*keep {
			os.RemoveAll(work)
		}
		if ee, ok := err.(*exec.ExitError); ok {
			os.Exit(ee.ExitCode())
		} else if err != nil {
			die("%v", err)
		}
		os.Exit(0)
	}

	replayDir := filepath.Join(verifDir, "replays", id)
	os.RemoveAll(replayDir)
	outs := make([]*workerOut, *shards)
	errs := make([]string, *shards)
	var wg sync.WaitGroup
	for i := 0; i < *shards; i++ {
		wg.Add(1)
		go func(i int) {
			defer wg.Done()
			of := filepath.Join(work, fmt.Sprintf("shard%d.json", i))
			a := []string{"-prop", id, "-tier", *tier, "-shard", strconv.Itoa(i), "-nshards", strconv.Itoa(*shards),
				"-out", of, "-replaydir", replayDir}
			if *budget > 0 {
				a = append(a, "-budget", budget.String())
			}
			cmd := exec.Command(bin, a...)
			cmd.Env = append(os.Environ(), "GOMAXPROCS=1", "GOTRACEBACK=single")
			var eb bytes.Buffer
			cmd.Stderr = &eb
			cmd.Stdout = &eb
			if err := cmd.Start(); err != nil {
				errs[i] = err.Error()
				return
			}
			done := make(chan error, 1)
			go func() { done <- cmd.Wait() }()
			hard := 4 * time.Hour
			select {
			case err := <-done:
				if err != nil {
					s := eb.String()
					if len(s) > 3000 {
						s = s[:1500] + "\n...\n" + s[len(s)-1500:]
					}
					errs[i] = fmt.Sprintf("worker %d: %v\n%s", i, err, s)
					return
				}
			case <-time.After(hard):
				cmd.Process.Kill()
				errs[i] = fmt.Sprintf("worker %d: killed after %v", i, hard)
				return
			}
			raw, err := os.ReadFile(of)
			if err != nil {
				errs[i] = err.Error()
				return
			}
			var o workerOut
			if err := json.Unmarshal(raw, &o); err != nil {
				errs[i] = "bad worker output: " + err.Error()
				return
			}
			outs[i] = &o
		}(i)
	}
	wg.Wait()
	for _, e := range errs {
		if e != "" {
			die("%s", e)
		}
	}
	var merged explore.Stats
	merged.BoundCompleted = 1 << 30
	for _, o := range outs {
		explore.Merge(&merged, &o.Stats)
	}
	meta := outs[0]
	raceIters := -1
	if meta.HasRace {
		var reports map[string]string
		var ferr string
		raceIters, reports, ferr = racePass(work, id, *tier, seed)
		if merged.ClassCounts == nil {
			merged.ClassCounts = map[string]int64{}
		}
		os.MkdirAll(replayDir, 0o755)
		add := func(class, msg string) {
			merged.ClassCounts[class]++
			name := filepath.Join(replayDir, fmt.Sprintf("race-%x.txt", len(merged.Violations)))
			os.WriteFile(name, []byte(msg), 0o644)
			merged.Violations = append(merged.Violations, explore.Violation{Unit: "free-running -race pass", Class: class, Msg: msg, Replay: name, Cost: 99})
		}
		if ferr != "" {
			add("free-running-pass-functional-failure", ferr)
		}
		for k, v := range reports {
			add("data-race: "+k, v)
		}
	}
	arch32Execs := int64(-1)
	if meta.HasArch32 {
		m := arch32Pass(work, id, *tier, filepath.Join(replayDir, "arch32"), *shards)
		arch32Execs = m.Executions
		if merged.ClassCounts == nil {
			merged.ClassCounts = map[string]int64{}
		}
		for k, n := range m.ClassCounts {
			merged.ClassCounts["GOARCH=386: "+k] += n
		}
		for _, v := range m.Violations {
			v.Unit = "GOARCH=386 " + v.Unit
			v.Class = "GOARCH=386: " + v.Class
			merged.Violations = append(merged.Violations, v)
		}
		for _, e := range m.HarnessErrors {
			merged.HarnessErrors = append(merged.HarnessErrors, "GOARCH=386: "+e)
		}
		if m.TimedOut {
			merged.TimedOut = true
		}
	}
	if len(merged.HarnessErrors) > 0 {
		for _, e := range merged.HarnessErrors {
			fmt.Fprintln(os.Stderr, "vcheck: HARNESS ERROR:", e)
		}
		os.Exit(2)
	}

	// classify violations against the committed known-findings file
	var kf struct {
		Findings []knownFinding `json:"findings"`
	}
	if raw, err := os.ReadFile(filepath.Join(verifDir, "known_findings.json")); err == nil {
		if err := json.Unmarshal(raw, &kf); err != nil {
			die("known_findings.json: %v", err)
		}
	}
	open := map[string]knownFinding{}
	for _, f := range kf.Findings {
		if f.Property == id && f.Status == "open" {
			open[f.Class] = f
		}
	}
	knownSeen := map[string]bool{}
	var unknown []explore.Violation
	var nUnknown, nKnown int64
	for cl, n := range merged.ClassCounts {
		if _, ok := open[cl]; ok {
			nKnown += n
			knownSeen[cl] = true
		} else {
			nUnknown += n
		}
	}
	for _, v := range merged.Violations {
		if _, ok := open[v.Class]; !ok {
			unknown = append(unknown, v)
		}
	}
	exhaustive := !merged.TimedOut && merged.BoundCompleted >= merged.BoundTarget
	distinctOutcomes := len(merged.Outcomes)
	cov := map[string]any{
		"evaluations":                   merged.Executions,
		"distinct_nontrivial":           merged.NonTrivial,
		"rule":                          meta.Rule,
		"samples":                       merged.Samples,
		"states":                        merged.Points + merged.Executions,
		"transitions":                   merged.Steps + merged.Executions,
		"traces_validated_against_impl": merged.Executions,
		"exhaustive":                    exhaustive,
		"units":                         merged.Units,
		"choice_points":                 merged.Points,
		"scheduler_steps":               merged.Steps,
		"max_choice_points_per_run":     merged.MaxPoints,
		"max_threads":                   merged.MaxThreads,
		"deviation_bound_target":        merged.BoundTarget,
		"deviation_bound_completed":     merged.BoundCompleted,
		"executions_by_deviation_cost":  merged.ByCost,
		"distinct_outcomes":             distinctOutcomes,
		"determinism_replays":           merged.DetChecks,
		"time_cap_hit":                  merged.TimedOut,
		"shards":                        *shards,
		"build_s":                       tBuild.Seconds(),
		"known_finding_executions":      nKnown,
		"explanation": "every evaluation is one execution of the real (source-instrumented) gohbase code under the controlled scheduler or one directly enumerated input; " +
			"states = choice points + terminal states visited, transitions = scheduler steps; all traces are implementation runs",
		"technique": meta.Technique,
	}
	if len(merged.Extra) > 0 {
		cov["extra"] = merged.Extra
	}
	if raceIters >= 0 {
		cov["race_pass"] = map[string]any{"iterations": raceIters, "exhaustive": false,
			"note": "separate free-running -race run of the same client code (sampling, not part of the exhaustive claim)"}
	}
	if arch32Execs >= 0 {
		cov["goarch_386_pass"] = map[string]any{"executions": arch32Execs, "exhaustive": !merged.TimedOut,
			"note": "the directly enumerated inputs decided a second time in a worker built for GOARCH=386 (int has 32 bits); not added to the counts above"}
	}
	if len(merged.Outcomes) <= 40 {
		cov["outcomes"] = merged.Outcomes
	}
	if len(merged.Samples) == 0 {
		cov["samples"] = []any{"(no sample recorded)"}
	}
	ev := map[string]any{
		"property_id": id,
		"tier":        *tier,
		"seed":        seed,
		"level":       meta.Level,
		"coverage":    cov,
		"assumptions": meta.Assumptions,
		"wall_s":      time.Since(t0).Seconds(),
		"violations":  nUnknown,
	}
	if meta.Assumptions == nil {
		ev["assumptions"] = []string{}
	}
	if strings.HasPrefix(id, "C") {
		os.MkdirAll(filepath.Join(verifDir, "evidence"), 0o755)
		js, _ := json.MarshalIndent(ev, "", " ")
		if err := os.WriteFile(filepath.Join(verifDir, "evidence", id+".json"), js, 0o644); err != nil {
			die("%v", err)
		}
	}
	fmt.Printf("vcheck: %s tier=%s executions=%d nontrivial=%d choice_points=%d steps=%d outcomes=%d bound=%d/%d exhaustive=%v wall=%.1fs (build %.1fs)\n",
		id, *tier, merged.Executions, merged.NonTrivial, merged.Points, merged.Steps, distinctOutcomes,
		merged.BoundCompleted, merged.BoundTarget, exhaustive, time.Since(t0).Seconds(), tBuild.Seconds())
	var kcl []string
	for cl := range knownSeen {
		kcl = append(kcl, cl)
	}
	sort.Strings(kcl)
	for _, cl := range kcl {
		fmt.Printf("KNOWN-FINDING: property=%s %s [%s] (%d executions)\n", id, open[cl].What, cl, merged.ClassCounts[cl])
	}
	if nUnknown > 0 {
		seen := map[string]bool{}
		for _, v := range unknown {
			if seen[v.Class] {
				continue
			}
			seen[v.Class] = true
			fmt.Printf("violation class=%s unit=%s cost=%d executions=%d\n  %s\n", v.Class, v.Unit, v.Cost, merged.ClassCounts[v.Class],
				strings.ReplaceAll(v.Msg, "\n", "\n  "))
			fmt.Printf("VIOLATION property=%s replay=%s\n", id, v.Replay)
		}
		if len(unknown) == 0 {
			fmt.Printf("VIOLATION property=%s replay=\n", id)
		}
		os.Exit(1)
	}
}
