package gohbase

// This file is added to package gohbase by the verification overlay
// (see /verif/cmd/vcheck). It only exposes constructor-level access to
// unexported pieces; it contains no logic of its own.

import (
	"context"
	"io"
	"log/slog"
	"net"
	"time"

	"github.com/tsuna/gohbase/compression"
	"github.com/tsuna/gohbase/hrpc"
	"github.com/tsuna/gohbase/region"
	"github.com/tsuna/gohbase/zk"
	"modernc.org/b/v2"
)

// VRegionClientFn is the region-client factory signature.
type VRegionClientFn = func(string, region.ClientType, int, time.Duration,
	string, time.Duration, compression.Codec,
	func(ctx context.Context, network, addr string) (net.Conn, error),
	*slog.Logger) hrpc.RegionClient

// VNewClient builds a client with an injected ZooKeeper client and (optionally)
// region-client factory.
func VNewClient(zkc zk.Client, fn VRegionClientFn, opts ...Option) Client {
	c := newClient("sim", opts...)
	c.zkClient = zkc
	if fn != nil {
		c.newRegionClientFn = fn
	}
	return c
}

// VNewAdminClient builds an admin client with an injected ZooKeeper client.
func VNewAdminClient(zkc zk.Client, fn VRegionClientFn, opts ...Option) AdminClient {
	c := newAdminClient("sim", opts...).(*client)
	c.zkClient = zkc
	if fn != nil {
		c.newRegionClientFn = fn
	}
	return c
}

// VCloseAdmin closes an admin client.
func VCloseAdmin(a AdminClient) { a.(*client).Close() }

// VRegionState describes one cached region for oracles.
type VRegionState struct {
	Name        string
	Unavailable bool
	HasClient   bool
	Dead        bool
	ClientAddr  string
}

// VStats exposes cache contents for oracles.
func VStats(cl any) (regions []VRegionState, clients []string) {
	c := cl.(*client)
	c.regions.m.Lock()
	enum, err := c.regions.regions.SeekFirst()
	if err == nil {
		for {
			_, v, err := enum.Next()
			if err == io.EOF {
				break
			}
			st := VRegionState{Name: string(v.Name()), Unavailable: v.IsUnavailable(), Dead: v.Context().Err() != nil}
			if rc := v.Client(); rc != nil {
				st.HasClient = true
				st.ClientAddr = rc.Addr()
			}
			regions = append(regions, st)
		}
		enum.Close()
	}
	c.regions.m.Unlock()
	c.clients.m.Lock()
	for rc := range c.clients.regions {
		clients = append(clients, rc.Addr())
	}
	c.clients.m.Unlock()
	return
}

// VNewScanner builds the real scanner over an arbitrary RPCClient.
func VNewScanner(c RPCClient, s *hrpc.Scan, l *slog.Logger) hrpc.Scanner {
	return newScanner(c, s, l)
}

// VCache gives direct access to the location cache of a fresh client.
type VCache struct{ c *client }

var vQuiet = slog.New(slog.NewTextHandler(io.Discard, nil))

func VNewCache() *VCache {
	c := &client{clientType: region.RegionClient, logger: vQuiet}
	c.metaRegionInfo = region.NewInfo(0, []byte("hbase"), []byte("meta"), []byte("hbase:meta,,1"), nil, nil)
	c.regions = keyRegionCache{logger: vQuiet, regions: b.TreeNew[[]byte, hrpc.RegionInfo](region.Compare)}
	c.clients = clientRegionCache{logger: vQuiet, regions: make(map[hrpc.RegionClient]map[hrpc.RegionInfo]struct{})}
	return &VCache{c: c}
}
func (v *VCache) Put(r hrpc.RegionInfo) ([]hrpc.RegionInfo, bool) { return v.c.regions.put(r) }
func (v *VCache) Del(r hrpc.RegionInfo) bool                      { return v.c.regions.del(r) }
func (v *VCache) Lookup(table, key []byte) hrpc.RegionInfo        { return v.c.getRegionFromCache(table, key) }
func (v *VCache) Len() int                                        { return v.c.regions.regions.Len() }
func (v *VCache) Regions() []hrpc.RegionInfo {
	var out []hrpc.RegionInfo
	enum, err := v.c.regions.regions.SeekFirst()
	if err != nil {
		return nil
	}
	for {
		_, r, err := enum.Next()
		if err == io.EOF {
			break
		}
		out = append(out, r)
	}
	enum.Close()
	return out
}

// VSearchKey exposes createRegionSearchKey.
func VSearchKey(table, key []byte) []byte { return createRegionSearchKey(table, key) }

// VBackoff exposes the back-off step function.
func VBackoff(ctx context.Context, b time.Duration) (time.Duration, error) {
	return sleepAndIncreaseBackoff(ctx, b)
}
