package region

// Added to package region by the verification overlay: constructor-level
// accessors only.

import (
	"io"
	"net"

	"github.com/tsuna/gohbase/compression"
	"github.com/tsuna/gohbase/hrpc"
	"google.golang.org/protobuf/proto"
)

// VCompress runs the client's cellblock compressor.
func VCompress(codec compression.Codec, bufs [][]byte, n uint32) []byte {
	c := &compressor{Codec: codec}
	cp := make(net.Buffers, len(bufs))
	copy(cp, bufs)
	out := c.compressCellblocks(cp, n)
	res := append([]byte(nil), out...)
	freeBuffer(out)
	return res
}

// VDecompress runs the client's cellblock decompressor.
func VDecompress(codec compression.Codec, b []byte) ([]byte, error) {
	c := &compressor{Codec: codec}
	return c.decompressCellblocks(b)
}

// VInfoFromCell exposes the region-info cell parser.
func VInfoFromCell(cell *hrpc.Cell) (hrpc.RegionInfo, error) { return infoFromCell(cell) }

// VReceive feeds one response stream to the receive path of a client that has
// the given calls outstanding with ids 1..n; it returns receive's error.
func VReceive(c hrpc.RegionClient, r io.Reader) error { return c.(*client).receive(r) }

// VRegister registers a call as sent and returns its id.
func VRegister(c hrpc.RegionClient, rpc hrpc.Call) uint32 { return c.(*client).registerRPC(rpc) }

// VNewMulti builds a multi call from calls (as the batching loop does).
func VNewMulti(calls []hrpc.Call) hrpc.Call {
	m := newMulti(len(calls))
	m.add(calls)
	return m
}

// VMultiToProto serialises a multi (cellblock form), as send() does.
func VMultiToProto(m hrpc.Call) (proto.Message, [][]byte, uint32) {
	return m.(*multi).SerializeCellBlocks(nil)
}

// VExceptionToError exposes the classification of a Java exception.
func VExceptionToError(class, stack string) error { return exceptionToError(class, stack) }
