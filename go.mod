module verif

go 1.23.0

require (
	github.com/golang/snappy v0.0.4
	github.com/tsuna/gohbase v0.0.0-00010101000000-000000000000
	golang.org/x/tools v0.29.0
	google.golang.org/protobuf v1.36.5
)

require (
	github.com/beorn7/perks v1.0.1 // indirect
	github.com/cespare/xxhash/v2 v2.3.0 // indirect
	github.com/go-logr/logr v1.4.2 // indirect
	github.com/go-logr/stdr v1.2.2 // indirect
	github.com/go-zookeeper/zk v1.0.4 // indirect
	github.com/munnerz/goautoneg v0.0.0-20191010083416-a7dc8b61c822 // indirect
	github.com/prometheus/client_golang v1.20.5 // indirect
	github.com/prometheus/client_model v0.6.1 // indirect
	github.com/prometheus/common v0.62.0 // indirect
	github.com/prometheus/procfs v0.15.1 // indirect
	go.opentelemetry.io/auto/sdk v1.1.0 // indirect
	go.opentelemetry.io/otel v1.34.0 // indirect
	go.opentelemetry.io/otel/metric v1.34.0 // indirect
	go.opentelemetry.io/otel/trace v1.34.0 // indirect
	golang.org/x/mod v0.22.0 // indirect
	golang.org/x/sync v0.10.0 // indirect
	golang.org/x/sys v0.30.0 // indirect
	modernc.org/b/v2 v2.1.2 // indirect
)

replace github.com/tsuna/gohbase => /repo
