// vinstr rewrites the concurrency constructs of selected packages so that
// they run on the vrt runtime, and emits a `go build -overlay` file.
//
//	vinstr -repo /repo -out /path/to/outdir -vrt verif/vrt pkgpattern...
package vinstr

import (
	"bytes"
	"fmt"
	"go/ast"
	"go/format"
	"go/token"
	"go/types"
	"os"
	"path/filepath"
	"strconv"

	"golang.org/x/tools/go/ast/astutil"
	"golang.org/x/tools/go/packages"
)

var vrtPath = "verif/vrt"

const vrtName = "__vrt"

type rewriter struct {
	fset    *token.FileSet
	info    *types.Info
	n       int
	needVrt bool
	skip    map[ast.Node]bool // top-level comm nodes of select clauses
	stats   map[string]int
}

func (r *rewriter) tmp(p string) *ast.Ident {
	r.n++
	return ast.NewIdent(fmt.Sprintf("__%s%d", p, r.n))
}

func (r *rewriter) vrt(name string) ast.Expr {
	r.needVrt = true
	return &ast.SelectorExpr{X: ast.NewIdent(vrtName), Sel: ast.NewIdent(name)}
}

func (r *rewriter) call(name string, args ...ast.Expr) *ast.CallExpr {
	return &ast.CallExpr{Fun: r.vrt(name), Args: args}
}

func isBlank(e ast.Expr) bool {
	id, ok := e.(*ast.Ident)
	return ok && id.Name == "_"
}

func (r *rewriter) isMap(e ast.Expr) (*types.Map, bool) {
	tv, ok := r.info.Types[e]
	if !ok || tv.Type == nil {
		return nil, false
	}
	m, ok := tv.Type.Underlying().(*types.Map)
	return m, ok
}

func (r *rewriter) isChan(e ast.Expr) bool {
	tv, ok := r.info.Types[e]
	if !ok || tv.Type == nil {
		return false
	}
	_, ok = tv.Type.Underlying().(*types.Chan)
	return ok
}

func basicKey(m *types.Map) bool {
	_, ok := m.Key().Underlying().(*types.Basic)
	return ok
}

func simpleExpr(e ast.Expr) bool {
	switch x := e.(type) {
	case *ast.Ident:
		return true
	case *ast.SelectorExpr:
		return simpleExpr(x.X)
	case *ast.ParenExpr:
		return simpleExpr(x.X)
	}
	return false
}

func (r *rewriter) file(f *ast.File) {
	// pass 1: mark select comm nodes
	ast.Inspect(f, func(n ast.Node) bool {
		if cc, ok := n.(*ast.CommClause); ok && cc.Comm != nil {
			switch c := cc.Comm.(type) {
			case *ast.SendStmt:
				r.skip[c] = true
			case *ast.ExprStmt:
				r.skip[c] = true
				r.skip[ast.Unparen(c.X)] = true
			case *ast.AssignStmt:
				r.skip[c] = true
				r.skip[ast.Unparen(c.Rhs[0])] = true
			}
		}
		return true
	})
	// pass 2: post-order rewriting
	astutil.Apply(f, nil, func(c *astutil.Cursor) bool {
		switch n := c.Node().(type) {
		case *ast.GoStmt:
			c.Replace(r.goStmt(n))
		case *ast.SendStmt:
			if !r.skip[n] {
				r.stats["send"]++
				c.Replace(&ast.ExprStmt{X: r.call("Send", n.Chan, n.Value)})
			}
		case *ast.UnaryExpr:
			if n.Op == token.ARROW && !r.skip[n] {
				r.stats["recv"]++
				c.Replace(r.call("Recv", n.X))
			}
		case *ast.AssignStmt:
			if r.skip[n] {
				break
			}
			if len(n.Lhs) == 2 && len(n.Rhs) == 1 {
				// v, ok := <-ch was rewritten (post-order) into v, ok := __vrt.Recv(ch)
				if ce, ok := n.Rhs[0].(*ast.CallExpr); ok {
					if se, ok := ce.Fun.(*ast.SelectorExpr); ok {
						if id, ok := se.X.(*ast.Ident); ok && id.Name == vrtName && se.Sel.Name == "Recv" {
							se.Sel = ast.NewIdent("Recv2")
						}
					}
				}
			}
			if n.Tok == token.ASSIGN && len(n.Lhs) == 1 && len(n.Rhs) == 1 {
				if ix, ok := n.Lhs[0].(*ast.IndexExpr); ok {
					if m, ok := r.isMap(ix.X); ok && !basicKey(m) {
						r.stats["mapset"]++
						c.Replace(&ast.ExprStmt{X: r.call("MapSet", ix.X, ix.Index, n.Rhs[0])})
					}
				}
			}
		case *ast.CallExpr:
			// fmt.Sprintf("%p", x): the address of an object as a string (map keys of the
			// client's state dump). Addresses differ from run to run and would order the
			// dump - and the lock operations of the MarshalJSON methods it calls -
			// differently: replaced by a per-execution serial number of the object.
			if se, ok := n.Fun.(*ast.SelectorExpr); ok && se.Sel.Name == "Sprintf" && len(n.Args) == 2 {
				if pk, ok := se.X.(*ast.Ident); ok && pk.Name == "fmt" {
					if lit, ok := n.Args[0].(*ast.BasicLit); ok && lit.Value == `"%p"` {
						r.stats["sprintp"]++
						n.Fun = r.vrt("Sprintp")
						n.Args = n.Args[1:]
					}
				}
			}
			if id, ok := n.Fun.(*ast.Ident); ok && id.Name == "close" && len(n.Args) == 1 {
				if _, isB := r.info.Uses[id].(*types.Builtin); isB {
					r.stats["close"]++
					n.Fun = r.vrt("Close")
				}
			}
		case *ast.SelectStmt:
			r.stats["select"]++
			c.Replace(r.selectStmt(n))
		case *ast.RangeStmt:
			if _, ok := r.isMap(n.X); ok {
				r.stats["maprange"]++
				r.mapRange(n)
			} else if r.isChan(n.X) {
				r.stats["chanrange"]++
				c.Replace(r.chanRange(n))
			}
		}
		return true
	})
}

func (r *rewriter) goStmt(g *ast.GoStmt) ast.Stmt {
	r.stats["go"]++
	call := g.Call
	pos := r.fset.Position(g.Pos())
	label := &ast.BasicLit{Kind: token.STRING, Value: strconv.Quote(fmt.Sprintf("%s:%d", filepath.Base(pos.Filename), pos.Line))}
	if fl, ok := call.Fun.(*ast.FuncLit); ok && len(call.Args) == 0 {
		return &ast.ExprStmt{X: r.call("GoNamed", label, fl)}
	}
	var pre []ast.Stmt
	fn := r.tmp("f")
	pre = append(pre, &ast.AssignStmt{Lhs: []ast.Expr{fn}, Tok: token.DEFINE, Rhs: []ast.Expr{call.Fun}})
	var args []ast.Expr
	for _, a := range call.Args {
		tv := r.info.Types[a]
		if tv.Value != nil || tv.IsNil() {
			args = append(args, a)
			continue
		}
		t := r.tmp("a")
		pre = append(pre, &ast.AssignStmt{Lhs: []ast.Expr{t}, Tok: token.DEFINE, Rhs: []ast.Expr{a}})
		args = append(args, t)
	}
	inner := &ast.CallExpr{Fun: fn, Args: args, Ellipsis: call.Ellipsis}
	lit := &ast.FuncLit{Type: &ast.FuncType{Params: &ast.FieldList{}},
		Body: &ast.BlockStmt{List: []ast.Stmt{&ast.ExprStmt{X: inner}}}}
	pre = append(pre, &ast.ExprStmt{X: r.call("GoNamed", label, lit)})
	return &ast.BlockStmt{List: pre}
}

func (r *rewriter) selectStmt(s *ast.SelectStmt) ast.Stmt {
	sel := r.tmp("sel")
	var pre []ast.Stmt
	pre = append(pre, &ast.DeclStmt{Decl: &ast.GenDecl{Tok: token.VAR, Specs: []ast.Spec{
		&ast.ValueSpec{Names: []*ast.Ident{sel}, Type: r.vrt("Select")}}}})
	selAddr := &ast.UnaryExpr{Op: token.AND, X: sel}
	sw := &ast.SwitchStmt{Body: &ast.BlockStmt{}}
	idx := 0
	for _, cl := range s.Body.List {
		cc := cl.(*ast.CommClause)
		if cc.Comm == nil {
			pre = append(pre, &ast.AssignStmt{
				Lhs: []ast.Expr{&ast.SelectorExpr{X: sel, Sel: ast.NewIdent("HasDefault")}},
				Tok: token.ASSIGN, Rhs: []ast.Expr{ast.NewIdent("true")}})
			sw.Body.List = append(sw.Body.List, &ast.CaseClause{List: nil, Body: cc.Body})
			continue
		}
		body := cc.Body
		switch cm := cc.Comm.(type) {
		case *ast.SendStmt:
			pre = append(pre, &ast.ExprStmt{X: r.call("AddSend", selAddr, cm.Chan, cm.Value)})
		case *ast.ExprStmt:
			u := ast.Unparen(cm.X).(*ast.UnaryExpr)
			pre = append(pre, &ast.ExprStmt{X: r.call("AddRecv", selAddr, u.X)})
		case *ast.AssignStmt:
			u := ast.Unparen(cm.Rhs[0]).(*ast.UnaryExpr)
			slot := r.tmp("c")
			pre = append(pre, &ast.AssignStmt{Lhs: []ast.Expr{slot}, Tok: token.DEFINE,
				Rhs: []ast.Expr{r.call("AddRecv", selAddr, u.X)}})
			rhs := []ast.Expr{&ast.SelectorExpr{X: slot, Sel: ast.NewIdent("V")}}
			if len(cm.Lhs) == 2 {
				rhs = append(rhs, &ast.SelectorExpr{X: slot, Sel: ast.NewIdent("OK")})
			}
			allBlank := true
			for _, l := range cm.Lhs {
				if !isBlank(l) {
					allBlank = false
				}
			}
			tok := cm.Tok
			if allBlank {
				tok = token.ASSIGN
			}
			as := &ast.AssignStmt{Lhs: cm.Lhs, Tok: tok, Rhs: rhs}
			body = append([]ast.Stmt{as}, body...)
		}
		sw.Body.List = append(sw.Body.List, &ast.CaseClause{
			List: []ast.Expr{&ast.BasicLit{Kind: token.INT, Value: strconv.Itoa(idx)}}, Body: body})
		idx++
	}
	hasDefault := false
	for _, cl := range s.Body.List {
		if cl.(*ast.CommClause).Comm == nil {
			hasDefault = true
		}
	}
	if !hasDefault {
		// keeps the switch a terminating statement whenever the select was one
		sw.Body.List = append(sw.Body.List, &ast.CaseClause{Body: []ast.Stmt{&ast.ExprStmt{
			X: &ast.CallExpr{Fun: ast.NewIdent("panic"),
				Args: []ast.Expr{&ast.BasicLit{Kind: token.STRING, Value: `"vrt: bad select index"`}}}}}})
	}
	sw.Tag = &ast.CallExpr{Fun: &ast.SelectorExpr{X: sel, Sel: ast.NewIdent("Wait")}}
	pre = append(pre, sw)
	return &ast.BlockStmt{List: pre}
}

// chanRange rewrites `for v := range ch { body }` into
// `for { v, ok := Recv2(ch); if !ok { break }; body }` (ch evaluated once).
func (r *rewriter) chanRange(n *ast.RangeStmt) ast.Stmt {
	ch := r.tmp("ch")
	ok := r.tmp("ok")
	var lhs ast.Expr = ast.NewIdent("_")
	tok := token.DEFINE
	if n.Key != nil && !isBlank(n.Key) {
		lhs = n.Key
		if n.Tok == token.ASSIGN {
			// the loop variable exists outside: declare ok separately
			tok = token.ASSIGN
		}
	}
	var recv []ast.Stmt
	if tok == token.ASSIGN {
		recv = append(recv, &ast.DeclStmt{Decl: &ast.GenDecl{Tok: token.VAR, Specs: []ast.Spec{
			&ast.ValueSpec{Names: []*ast.Ident{ok}, Type: ast.NewIdent("bool")}}}})
	}
	recv = append(recv, &ast.AssignStmt{Lhs: []ast.Expr{lhs, ok}, Tok: tok, Rhs: []ast.Expr{r.call("Recv2", ch)}},
		&ast.IfStmt{Cond: &ast.UnaryExpr{Op: token.NOT, X: ok}, Body: &ast.BlockStmt{List: []ast.Stmt{&ast.BranchStmt{Tok: token.BREAK}}}})
	loop := &ast.ForStmt{Body: &ast.BlockStmt{List: append(recv, n.Body.List...)}}
	return &ast.BlockStmt{List: []ast.Stmt{
		&ast.AssignStmt{Lhs: []ast.Expr{ch}, Tok: token.DEFINE, Rhs: []ast.Expr{n.X}},
		loop,
	}}
}

func (r *rewriter) mapRange(n *ast.RangeStmt) {
	if !simpleExpr(n.X) {
		panic(fmt.Sprintf("%s: range over non-simple map expression", r.fset.Position(n.Pos())))
	}
	k := r.tmp("k")
	var prelude []ast.Stmt
	needV := n.Value != nil && !isBlank(n.Value)
	v, ok := r.tmp("v"), r.tmp("ok")
	vLhs := ast.Expr(ast.NewIdent("_"))
	if needV {
		vLhs = v
	}
	prelude = append(prelude,
		&ast.AssignStmt{Lhs: []ast.Expr{vLhs, ok}, Tok: token.DEFINE,
			Rhs: []ast.Expr{&ast.IndexExpr{X: n.X, Index: k}}},
		&ast.IfStmt{Cond: &ast.UnaryExpr{Op: token.NOT, X: ok},
			Body: &ast.BlockStmt{List: []ast.Stmt{&ast.BranchStmt{Tok: token.CONTINUE}}}})
	var lhs, rhs []ast.Expr
	if n.Key != nil && !isBlank(n.Key) {
		lhs, rhs = append(lhs, n.Key), append(rhs, k)
	}
	if needV {
		lhs, rhs = append(lhs, n.Value), append(rhs, v)
	}
	if len(lhs) > 0 {
		prelude = append(prelude, &ast.AssignStmt{Lhs: lhs, Tok: n.Tok, Rhs: rhs})
	}
	n.Body.List = append(prelude, n.Body.List...)
	n.X = r.call("MapKeys", n.X)
	n.Key = ast.NewIdent("_")
	n.Value = k
	n.Tok = token.DEFINE
}

var swaps = map[string]string{
	"sync":        "/vsync",
	"sync/atomic": "/vatomic",
	"time":        "/vtime",
	"context":     "/vcontext",
}

func (r *rewriter) imports(f *ast.File) {
	for _, im := range f.Imports {
		p, _ := strconv.Unquote(im.Path.Value)
		if suf, ok := swaps[p]; ok {
			if im.Name == nil {
				im.Name = ast.NewIdent(filepath.Base(p))
			}
			im.Path.Value = strconv.Quote(vrtPath + suf)
			im.Path.ValuePos = token.NoPos
		}
	}
}

// Run rewrites the given packages of the module at repo into outDir and
// returns the overlay (original path -> rewritten path) and construct counts.
func Run(repo, outDir, vrt string, patterns []string) (map[string]string, map[string]int, error) {
	vrtPath = vrt
	cfg := &packages.Config{
		Mode: packages.NeedName | packages.NeedFiles | packages.NeedCompiledGoFiles |
			packages.NeedImports | packages.NeedTypes | packages.NeedTypesSizes |
			packages.NeedSyntax | packages.NeedTypesInfo,
		Dir: repo,
	}
	pkgs, err := packages.Load(cfg, patterns...)
	if err != nil {
		return nil, nil, err
	}
	nerr := 0
	var first string
	packages.Visit(pkgs, nil, func(p *packages.Package) {
		for _, e := range p.Errors {
			if first == "" {
				first = e.Error()
			}
			nerr++
		}
	})
	if nerr > 0 {
		return nil, nil, fmt.Errorf("%d load errors, first: %s", nerr, first)
	}
	overlay := map[string]string{}
	total := map[string]int{}
	for _, pkg := range pkgs {
		for i, f := range pkg.Syntax {
			src := pkg.CompiledGoFiles[i]
			r := &rewriter{fset: pkg.Fset, info: pkg.TypesInfo, skip: map[ast.Node]bool{}, stats: total}
			if err := func() (err error) {
				defer func() {
					if x := recover(); x != nil {
						err = fmt.Errorf("%v", x)
					}
				}()
				r.file(f)
				return nil
			}(); err != nil {
				return nil, nil, err
			}
			r.imports(f)
			if r.needVrt {
				astutil.AddNamedImport(pkg.Fset, f, vrtName, vrtPath)
			}
			var buf bytes.Buffer
			if err := format.Node(&buf, pkg.Fset, f); err != nil {
				return nil, nil, fmt.Errorf("%s: %v", src, err)
			}
			rel, _ := filepath.Rel(repo, src)
			dst := filepath.Join(outDir, rel)
			os.MkdirAll(filepath.Dir(dst), 0o755)
			if err := os.WriteFile(dst, buf.Bytes(), 0o644); err != nil {
				return nil, nil, err
			}
			overlay[src] = dst
		}
	}
	return overlay, total, nil
}
