package vrt

import "testing"

type zero struct{}

func (zero) Pick(p *Point) int { return 0 }

func TestAwaitFirst(t *testing.T) {
	for k := 1; k <= 8; k++ {
		resumed := 0
		Tracing = true
		res := Run(zero{}, Options{}, func() {
			done := make(chan struct{}, 2)
			GoNamed("worker", func() {
				for i := 0; i < 3; i++ {
					Yield("check")
					Yield("act")
				}
				Send(done, struct{}{})
			})
			GoInterrupt("intr", func() bool { return Steps() >= k }, func() {
				resumed = Steps()
				Send(done, struct{}{})
			})
			Recv(done)
			Recv(done)
		})
		if resumed != k && k >= 2 {
			t.Errorf("k=%d resumed=%d trace=%v", k, resumed, res.Trace)
		}
	}
}
