// Package vcontext mirrors package context with deadlines on the vrt clock.
package vcontext

import (
	orig "context"
	"time"

	"verif/vrt"
)

type deadlineCtx struct {
	orig.Context
	deadline time.Time
}

func (c *deadlineCtx) Deadline() (time.Time, bool) { return c.deadline, true }
func (c *deadlineCtx) Err() error {
	if e := c.Context.Err(); e != nil {
		if orig.Cause(c.Context) == orig.DeadlineExceeded {
			return orig.DeadlineExceeded
		}
		return e
	}
	return nil
}

// WithDeadline mirrors context.WithDeadline on the virtual clock.
func WithDeadline(parent orig.Context, d time.Time) (orig.Context, orig.CancelFunc) {
	if !vrt.Active() {
		return orig.WithDeadline(parent, d)
	}
	if cur, ok := parent.Deadline(); ok && cur.Before(d) {
		return orig.WithCancel(parent)
	}
	inner, cancel := orig.WithCancelCause(parent)
	c := &deadlineCtx{Context: inner, deadline: d}
	tm := vrt.AfterFunc(d.Sub(vrt.Now()), func() { cancel(orig.DeadlineExceeded) })
	return c, func() { tm.Stop(); cancel(orig.Canceled) }
}

// WithTimeout mirrors context.WithTimeout.
func WithTimeout(parent orig.Context, d time.Duration) (orig.Context, orig.CancelFunc) {
	return WithDeadline(parent, vrt.Now().Add(d))
}

func WithDeadlineCause(parent orig.Context, d time.Time, cause error) (orig.Context, orig.CancelFunc) {
	return WithDeadline(parent, d)
}
func WithTimeoutCause(parent orig.Context, d time.Duration, cause error) (orig.Context, orig.CancelFunc) {
	return WithTimeout(parent, d)
}

// AfterFunc mirrors context.AfterFunc: under a controlled run f runs in a
// controlled thread once ctx is done (the standard library would start a
// goroutine the scheduler cannot see).
func AfterFunc(ctx orig.Context, f func()) (stop func() bool) {
	if !vrt.Active() {
		return orig.AfterFunc(ctx, f)
	}
	stopped := make(chan struct{})
	ran := false
	vrt.GoNamed("context.AfterFunc", func() {
		var sel vrt.Select
		vrt.AddRecv(&sel, ctx.Done())
		vrt.AddRecv(&sel, (<-chan struct{})(stopped))
		if sel.Wait() == 0 {
			ran = true
			f()
		}
	})
	done := false
	return func() bool {
		if done || ran {
			return false
		}
		done = true
		close(stopped)
		return true
	}
}
