// Package vtime mirrors package time on the vrt virtual clock.
package vtime

import (
	orig "time"

	"verif/vrt"
)

type Timer = vrt.Timer
type Ticker = vrt.Timer

func Now() orig.Time                                { return vrt.Now() }
func Since(t orig.Time) orig.Duration               { return vrt.Now().Sub(t) }
func Until(t orig.Time) orig.Duration               { return t.Sub(vrt.Now()) }
func After(d orig.Duration) <-chan orig.Time        { return vrt.After(d) }
func AfterFunc(d orig.Duration, f func()) *Timer    { return vrt.AfterFunc(d, f) }
func NewTimer(d orig.Duration) *Timer               { return vrt.NewTimer(d) }
func NewTicker(d orig.Duration) *Ticker             { return vrt.NewTicker(d) }
func Sleep(d orig.Duration)                         { vrt.Sleep(d) }
func Tick(d orig.Duration) <-chan orig.Time         { return vrt.NewTicker(d).C }
