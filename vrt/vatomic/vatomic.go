// Package vatomic mirrors sync/atomic functions used by the code under test.
package vatomic

import (
	"sync/atomic"

	"verif/vrt"
)

func AddUint32(addr *uint32, delta uint32) uint32 {
	vrt.Yield("atomic.AddUint32")
	return atomic.AddUint32(addr, delta)
}
func LoadUint32(addr *uint32) uint32 {
	vrt.Yield("atomic.LoadUint32")
	return atomic.LoadUint32(addr)
}
func AddInt32(addr *int32, delta int32) int32 {
	vrt.Yield("atomic.AddInt32")
	return atomic.AddInt32(addr, delta)
}
func LoadInt32(addr *int32) int32 {
	vrt.Yield("atomic.LoadInt32")
	return atomic.LoadInt32(addr)
}
func StoreUint32(addr *uint32, v uint32) {
	vrt.Yield("atomic.StoreUint32")
	atomic.StoreUint32(addr, v)
}
