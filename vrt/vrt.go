// Package vrt is a deterministic, explorer-controlled runtime for goroutines,
// channel operations, locks, timers and environment choices.
//
// Exactly one of {scheduler, one thread} runs at any time. Threads hand the
// token back to the scheduler before every visible operation; the scheduler
// computes the set of enabled transitions, asks the Strategy which one to
// take, and grants the token.
package vrt

import (
	"fmt"
	"reflect"
	"runtime"
	"runtime/debug"
	"sort"
	"sync"
	"sync/atomic"
	"time"
	"unsafe"
)

// ---------------------------------------------------------------------------
// channel peeking (runtime.hchan header; validated by SelfTest)

type hchanHdr struct {
	qcount   uint
	dataqsiz uint
	buf      unsafe.Pointer
	elemsize uint16
	closed   uint32
}

func chanPtr[T any](ch <-chan T) unsafe.Pointer {
	return *(*unsafe.Pointer)(unsafe.Pointer(&ch))
}

func chanState(p unsafe.Pointer) (n, c int, closed bool) {
	if p == nil {
		return 0, 0, false
	}
	h := (*hchanHdr)(p)
	return int(h.qcount), int(h.dataqsiz), h.closed != 0
}

// SelfTest checks the hchan layout assumption; it panics when it does not hold.
func SelfTest() {
	c := make(chan int, 3)
	chk := func(n, cp int, cl bool) {
		gn, gc, gcl := chanState(chanPtr((<-chan int)(c)))
		if gn != n || gc != cp || gcl != cl {
			panic(fmt.Sprintf("vrt: hchan layout mismatch: got (%d,%d,%v) want (%d,%d,%v)",
				gn, gc, gcl, n, cp, cl))
		}
	}
	chk(0, 3, false)
	c <- 1
	c <- 2
	chk(2, 3, false)
	<-c
	chk(1, 3, false)
	close(c)
	chk(1, 3, true)
	u := make(chan struct{})
	gn, gc, gcl := chanState(chanPtr((<-chan struct{})(u)))
	if gn != 0 || gc != 0 || gcl {
		panic("vrt: hchan layout mismatch (unbuffered)")
	}
	close(u)
	if _, _, cl := chanState(chanPtr((<-chan struct{})(u))); !cl {
		panic("vrt: hchan layout mismatch (closed unbuffered)")
	}
}

// ---------------------------------------------------------------------------
// threads and operations

type opKind int

const (
	opSelect opKind = iota // send / recv / select
	opCond                 // generic "wait until enabled()" (locks, once, await)
	opYield                // always enabled
)

type selCase struct {
	send bool
	rch  reflect.Value
	rval reflect.Value
	chp  unsafe.Pointer
	try  func() bool          // perform the real op non-blocking (buffered or closed channel)
	get  func() any           // rendezvous: sender side
	put  func(v any, ok bool) // rendezvous / closed: receiver side
}

type op struct {
	kind       opKind
	label      string
	obj        unsafe.Pointer
	enabled    func() bool
	cases      []selCase
	hasDefault bool
	first      bool // once enabled, offered ahead of the running thread (AwaitFirst)
}

type thread struct {
	id     int
	name   string
	gate   chan struct{}
	op     *op
	ready  bool // op already completed (rendezvous partner) – only needs the token
	selIdx int
	exited bool
	abort  bool
}

type transition struct {
	t       *thread
	caseIdx int     // -1: default / not a select
	partner *thread // rendezvous partner
	pcase   int
	timer   bool
}

// Kind classifies a choice point for the explorer.
type Kind int

const (
	KSched Kind = iota // which transition runs next
	KEnv               // environment choice made by harness code (vrt.Choose)
)

// Point describes one choice point of an execution.
type Point struct {
	Kind       Kind
	N          int    // number of alternatives
	Chosen     int    // index taken
	Cost       []int8 // deviation cost of each alternative (0 for the default)
	Label      string
	Step       int
	CurEnabled bool
}

// Strategy decides every choice.
type Strategy interface {
	Pick(p *Point) int
}

// Result summarises one execution.
type Result struct {
	Points     []Point
	Steps      int
	Deadlock   bool     // main thread blocked forever
	Blocked    []string // threads still blocked at the end
	Panics     []string
	HorizonHit bool
	Now        time.Duration
	Trace      []string
	TraceSteps []int // step number of each Trace entry
	SchedHash  uint64 // FNV-1a over (thread id, case) of every granted transition and every env choice
	Cost       int    // total deviation cost of the choices taken
	NonDefault int    // number of choice points at which a non-default alternative was taken
	Threads    int    // threads created
}

type sched struct {
	threads  []*thread
	cur      *thread
	strategy Strategy
	res      *Result
	yield    chan *thread // thread -> scheduler
	now      time.Duration
	timers   []*Timer
	tseq     int
	maxSteps int
	aborting bool
	mapOrder map[any]int
	ptrIDs   map[any]int // Sprintp: serial numbers of objects named by address
	earlyTimers bool
}

var s *sched

// Tracing records a label per granted transition.
var Tracing bool

// Active reports whether a controlled execution is in progress.
func Active() bool { return s != nil }

// Options for Run.
type Options struct {
	MaxSteps    int
	EarlyTimers bool // allow timers to fire before quiescence (as deviations)
}

var resetHooks []func()

// RegisterReset registers a function that restores process-global state (object
// pools of the code under test) before every controlled run, so that one
// execution cannot influence the next.
func RegisterReset(f func()) { resetHooks = append(resetHooks, f) }

// Run executes main under the controlled scheduler.
func Run(strategy Strategy, opt Options, main func()) *Result {
	if s != nil {
		panic("vrt: nested Run")
	}
	for _, f := range resetHooks {
		f()
	}
	if opt.MaxSteps == 0 {
		opt.MaxSteps = 100000
	}
	sc := &sched{strategy: strategy, res: &Result{}, yield: make(chan *thread),
		maxSteps: opt.MaxSteps, mapOrder: map[any]int{}, earlyTimers: opt.EarlyTimers}
	s = sc
	defer func() { s = nil }()
	t0 := sc.newThread("main", main)
	sc.cur = t0
	sc.loop(t0)
	sc.res.Now = sc.now
	sc.res.Threads = len(sc.threads)
	return sc.res
}

func (sc *sched) newThread(name string, f func()) *thread {
	t := &thread{id: len(sc.threads), name: name, gate: make(chan struct{}, 1)}
	t.op = &op{kind: opYield, label: "start"}
	sc.threads = append(sc.threads, t)
	go func() {
		<-t.gate
		defer func() {
			if r := recover(); r != nil {
				if !sc.aborting {
					sc.res.Panics = append(sc.res.Panics,
						fmt.Sprintf("thread %d (%s): %v\n%s", t.id, t.name, r, debug.Stack()))
				}
			}
			t.exited = true
			t.op = nil
			sc.yield <- t
		}()
		if t.abort {
			return
		}
		f()
	}()
	return t
}

// cur thread helper
func me() *thread { return s.cur }

// block posts the op, yields to the scheduler and returns when granted.
func (sc *sched) block(o *op) *thread {
	t := sc.cur
	if sc.aborting {
		runtime.Goexit()
	}
	t.op = o
	sc.yield <- t
	<-t.gate
	if t.abort {
		runtime.Goexit()
	}
	return t
}

func caseEnabled(sc *sched, self *thread, c *selCase) (ok bool, partners []*thread, pcases []int) {
	if c.chp == nil {
		return false, nil, nil
	}
	n, cp, closed := chanState(c.chp)
	if c.send {
		if closed || n < cp {
			return true, nil, nil
		}
	} else {
		if n > 0 || closed {
			return true, nil, nil
		}
	}
	if cp != 0 {
		return false, nil, nil
	}
	// unbuffered: look for a partner
	for _, o := range sc.threads {
		if o == self || o.exited || o.ready || o.op == nil || o.op.kind != opSelect {
			continue
		}
		for j := range o.op.cases {
			oc := &o.op.cases[j]
			if oc.chp == c.chp && oc.send != c.send {
				partners = append(partners, o)
				pcases = append(pcases, j)
			}
		}
	}
	return len(partners) > 0, partners, pcases
}

func (sc *sched) enabledOf(t *thread, out []transition) []transition {
	if t.exited || t.op == nil {
		return out
	}
	if t.ready {
		return append(out, transition{t: t, caseIdx: -2})
	}
	switch t.op.kind {
	case opYield:
		return append(out, transition{t: t, caseIdx: -1})
	case opCond:
		if t.op.enabled() {
			return append(out, transition{t: t, caseIdx: -1})
		}
		return out
	case opSelect:
		any := false
		for i := range t.op.cases {
			ok, ps, pcs := caseEnabled(sc, t, &t.op.cases[i])
			if !ok {
				continue
			}
			any = true
			if ps == nil {
				out = append(out, transition{t: t, caseIdx: i})
				continue
			}
			for k, p := range ps {
				dup := false
				for _, e := range out {
					if e.partner == t && e.t == p && e.caseIdx == pcs[k] && e.pcase == i {
						dup = true
					}
				}
				if !dup {
					out = append(out, transition{t: t, caseIdx: i, partner: p, pcase: pcs[k]})
				}
			}
		}
		if !any && t.op.hasDefault {
			out = append(out, transition{t: t, caseIdx: -1})
		}
	}
	return out
}

func (sc *sched) loop(first *thread) {
	first.gate <- struct{}{}
	granted := true
	for {
		if granted {
			<-sc.yield // the running thread yielded or exited
		}
		var fin bool
		granted, fin = sc.step()
		if fin {
			return
		}
	}
}

// step takes one transition. granted reports whether a thread now holds the token.
func (sc *sched) step() (granted, finished bool) {
	sc.res.Steps++
	if sc.res.Steps > sc.maxSteps {
		sc.res.HorizonHit = true
		sc.abortAll()
		return false, true
	}
	// enumerate transitions: current first, then ascending ids
	var trs []transition
	curEnabled := false
	if sc.cur != nil && !sc.cur.exited {
		trs = sc.enabledOf(sc.cur, trs)
		curEnabled = len(trs) > 0
	}
	for _, t := range sc.threads {
		if t != sc.cur {
			trs = sc.enabledOf(t, trs)
		}
	}
	if len(trs) == 0 {
		if tm := sc.earliestTimer(); tm != nil {
			sc.fire(tm)
			return false, false
		}
		sc.finish()
		return false, true
	}
	for i := 1; i < len(trs); i++ {
		// an AwaitFirst waiter whose condition holds is the default choice
		if trs[i].t.op != nil && trs[i].t.op.first && !trs[i].t.ready {
			tr := trs[i]
			copy(trs[1:i+1], trs[:i])
			trs[0] = tr
			break
		}
	}
	if sc.earlyTimers && sc.earliestTimer() != nil {
		trs = append(trs, transition{timer: true})
	}
	idx := 0
	if len(trs) > 1 {
		p := Point{Kind: KSched, N: len(trs), Step: sc.res.Steps, CurEnabled: curEnabled}
		p.Cost = make([]int8, len(trs))
		for i := 1; i < len(trs); i++ {
			p.Cost[i] = 1
		}
		if sc.cur != nil && sc.cur.op != nil {
			p.Label = sc.cur.op.label
		}
		idx = sc.strategy.Pick(&p)
		if idx < 0 || idx >= len(trs) {
			panic(fmt.Sprintf("vrt: strategy picked %d of %d", idx, len(trs)))
		}
		p.Chosen = idx
		sc.res.Points = append(sc.res.Points, p)
		sc.res.Cost += int(p.Cost[idx])
		if idx != 0 {
			sc.res.NonDefault++
		}
	}
	tr := trs[idx]
	if tr.timer {
		sc.fire(sc.earliestTimer())
		return false, false
	}
	sc.grant(tr)
	return true, false
}

func (sc *sched) mix(v uint64) {
	h := sc.res.SchedHash
	if h == 0 {
		h = 14695981039346656037
	}
	for i := 0; i < 4; i++ {
		h ^= v & 0xff
		h *= 1099511628211
		v >>= 8
	}
	sc.res.SchedHash = h
}

func (sc *sched) grant(tr transition) {
	t := tr.t
	sc.mix(uint64(t.id)<<8 | uint64(uint8(tr.caseIdx+2)))
	if Tracing {
		l := ""
		if t.op != nil {
			l = t.op.label
		}
		sc.res.Trace = append(sc.res.Trace, fmt.Sprintf("%d:%s %s case=%d @%v", t.id, t.name, l, tr.caseIdx, sc.now))
		sc.res.TraceSteps = append(sc.res.TraceSteps, sc.res.Steps)
	}
	if tr.caseIdx == -2 {
		t.ready = false
	} else if t.op.kind == opSelect {
		t.selIdx = tr.caseIdx
		if tr.partner != nil {
			a, b := &t.op.cases[tr.caseIdx], &tr.partner.op.cases[tr.pcase]
			snd, rcv := a, b
			if !a.send {
				snd, rcv = b, a
			}
			rcv.put(snd.get(), true)
			tr.partner.selIdx = tr.pcase
			tr.partner.ready = true
			tr.partner.op.cases = nil // performed
			t.op.cases = nil         // performed
		}
	}
	sc.cur = t
	t.gate <- struct{}{}
}

func (sc *sched) finish() {
	main := sc.threads[0]
	if !main.exited {
		sc.res.Deadlock = true
	}
	for _, t := range sc.threads {
		if !t.exited {
			l := "?"
			if t.op != nil {
				l = t.op.label
			}
			sc.res.Blocked = append(sc.res.Blocked, fmt.Sprintf("%d:%s@%s", t.id, t.name, l))
		}
	}
	sc.abortAll()
}

func (sc *sched) abortAll() {
	sc.aborting = true
	for _, t := range sc.threads {
		if t.exited {
			continue
		}
		t.abort = true
		sc.cur = t
		t.gate <- struct{}{}
		for {
			y := <-sc.yield
			if y == t && t.exited {
				break
			}
		}
	}
}

// ---------------------------------------------------------------------------
// public primitives

// Go starts a new controlled thread.
func Go(f func()) {
	if s == nil {
		go f()
		return
	}
	s.newThread("go", f)
	// spawning is not a scheduling point by itself; the new thread is
	// enabled (opYield) from now on.
}

// GoNamed is Go with a thread name (harness use).
func GoNamed(name string, f func()) {
	if s == nil {
		go f()
		return
	}
	s.newThread(name, f)
}

// GoInterrupt starts f on a new thread that does not begin before pred holds and is then
// offered first at the next choice point, ahead of the running thread (see AwaitFirst). A
// thread started with Go only reaches its first statement when the default schedule gets
// round to it - with run-to-block defaults that can be long after the step it was meant
// for; an interrupt is in position from the moment it is created.
func GoInterrupt(name string, pred func() bool, f func()) {
	if s == nil {
		go func() {
			Await(name, pred)
			f()
		}()
		return
	}
	t := s.newThread(name, f)
	t.op = &op{kind: opCond, label: "interrupt", enabled: pred, first: true}
}

// Perturb, when non-zero, makes pass-through scheduling points yield the
// processor pseudo-randomly (used by the free-running -race pass).
var Perturb uint32

func perturb() {
	if atomic.LoadUint32(&Perturb) == 0 {
		return
	}
	x := atomic.AddUint32(&Perturb, 0x9e3779b1)
	x ^= x >> 15
	x *= 0x2c1b3c6d
	x ^= x >> 12
	switch x % 16 {
	case 0:
		time.Sleep(time.Duration(x>>8%200) * time.Microsecond)
	case 1, 2, 3:
		runtime.Gosched()
	}
}

// Yield is an explicit scheduling point.
func Yield(label string) {
	if s == nil {
		perturb()
		return
	}
	s.block(&op{kind: opYield, label: label})
}

// harnessMu protects harness-side state (simulated connections, clusters) in
// pass-through mode, where real goroutines run concurrently. Under a controlled
// run exactly one thread runs at a time and the lock is not used.
var harnessMu sync.Mutex

// HLock / HUnlock bracket harness code that touches shared harness state; they
// are no-ops under a controlled run.
func HLock() {
	if s == nil {
		harnessMu.Lock()
	}
}
func HUnlock() {
	if s == nil {
		harnessMu.Unlock()
	}
}

// Await blocks until pred() holds. pred must be side-effect free.
// In pass-through mode it polls pred under the harness lock; the caller must
// NOT hold the harness lock.
func Await(label string, pred func() bool) {
	if s == nil {
		for {
			harnessMu.Lock()
			ok := pred()
			harnessMu.Unlock()
			if ok {
				return
			}
			time.Sleep(50 * time.Microsecond)
		}
	}
	s.block(&op{kind: opCond, label: label, enabled: pred})
}

// AwaitFirst is Await for an external event whose position is a parameter of the harness:
// once pred holds the caller is offered first at the next choice point, ahead of the
// running thread, so that in the default schedule it resumes exactly there and every other
// continuation costs one deviation. With pred = "Steps() >= k" this is an interrupt at
// step k: the start of the event is enumerated by the harness (one unit per k) instead of
// being a preemption that uses up the deviation budget.
func AwaitFirst(label string, pred func() bool) {
	if s == nil {
		Await(label, pred)
		return
	}
	s.block(&op{kind: opCond, label: label, enabled: pred, first: true})
}

// Steps returns the number of scheduling steps of the current controlled execution
// (0 in pass-through mode).
func Steps() int {
	if s == nil {
		return 0
	}
	return s.res.Steps
}

// Choose is an environment choice among n alternatives; cost is the deviation
// cost of every non-zero alternative (0 = free enumeration).
func Choose(n int, label string, cost int8) int {
	if s == nil {
		return 0
	}
	if n <= 1 {
		return 0
	}
	p := Point{Kind: KEnv, N: n, Label: label, Step: s.res.Steps}
	p.Cost = make([]int8, n)
	for i := 1; i < n; i++ {
		p.Cost[i] = cost
	}
	idx := s.strategy.Pick(&p)
	if idx < 0 || idx >= n {
		panic(fmt.Sprintf("vrt: strategy picked %d of %d (env %s)", idx, n, label))
	}
	p.Chosen = idx
	s.res.Points = append(s.res.Points, p)
	s.res.Cost += int(p.Cost[idx])
	if idx != 0 {
		s.res.NonDefault++
	}
	s.mix(uint64(0xe000+idx))
	return idx
}

// Send performs ch <- v.
func Send[T any](ch chan<- T, v T) {
	if s == nil {
		ch <- v
		return
	}
	sel := Select{}
	AddSend(&sel, ch, v)
	sel.label = "send"
	sel.Wait()
}

// Recv performs <-ch.
func Recv[T any](ch <-chan T) T {
	if s == nil {
		return <-ch
	}
	sel := Select{label: "recv"}
	r := AddRecv(&sel, ch)
	sel.Wait()
	return r.V
}

// Recv2 performs v, ok := <-ch.
func Recv2[T any](ch <-chan T) (T, bool) {
	if s == nil {
		v, ok := <-ch
		return v, ok
	}
	sel := Select{label: "recv"}
	r := AddRecv(&sel, ch)
	sel.Wait()
	return r.V, r.OK
}

// Close performs close(ch).
func Close[T any](ch chan<- T) {
	if s != nil {
		s.block(&op{kind: opYield, label: "close"})
	}
	close(ch)
}

// Select is a rewritten select statement.
type Select struct {
	cases      []selCase
	HasDefault bool
	label      string
	passthru   []func() bool
}

// RecvSlot receives the value of a recv case.
type RecvSlot[T any] struct {
	V  T
	OK bool
}

// AddRecv registers a receive case.
func AddRecv[T any](sel *Select, ch <-chan T) *RecvSlot[T] {
	r := &RecvSlot[T]{}
	c := selCase{chp: chanPtr(ch)}
	if s == nil {
		c.rch = reflect.ValueOf(ch)
	}
	c.try = func() bool {
		select {
		case v, ok := <-ch:
			r.V, r.OK = v, ok
			return true
		default:
			return false
		}
	}
	c.put = func(v any, ok bool) {
		if v != nil {
			r.V = v.(T)
		}
		r.OK = ok
	}
	sel.cases = append(sel.cases, c)
	return r
}

// AddSend registers a send case.
func AddSend[T any](sel *Select, ch chan<- T, v T) {
	c := selCase{send: true, chp: *(*unsafe.Pointer)(unsafe.Pointer(&ch))}
	if s == nil {
		c.rch = reflect.ValueOf(ch)
		c.rval = reflect.ValueOf(&v).Elem()
	}
	c.try = func() bool {
		select {
		case ch <- v:
			return true
		default:
			return false
		}
	}
	c.get = func() any { return v }
	sel.cases = append(sel.cases, c)
}

// Wait blocks until one case can proceed, performs it and returns its index
// (-1 for default).
func (sel *Select) Wait() int {
	if s == nil {
		return sel.waitReal()
	}
	lab := sel.label
	if lab == "" {
		lab = "select"
	}
	o := &op{kind: opSelect, label: lab, cases: sel.cases, hasDefault: sel.HasDefault}
	t := s.block(o)
	idx := t.selIdx
	if idx >= 0 && o.cases != nil { // not a rendezvous already performed by the scheduler
		if !o.cases[idx].try() {
			panic(fmt.Sprintf("vrt: granted case %d of %s was not ready", idx, lab))
		}
	}
	return idx
}

// ---------------------------------------------------------------------------
// virtual time

// Timer mirrors time.Timer.
type Timer struct {
	rt     *time.Timer
	rk     *time.Ticker
	C      <-chan time.Time
	c      chan time.Time
	when   time.Duration
	seq    int
	fn     func()
	active bool
	period time.Duration
}

var epoch = time.Date(2025, 1, 1, 0, 0, 0, 0, time.UTC)

// Now returns the virtual time.
func Now() time.Time {
	if s == nil {
		return time.Now()
	}
	return epoch.Add(s.now)
}

func (sc *sched) addTimer(d time.Duration, fn func(), period time.Duration) *Timer {
	if d < 0 {
		d = 0
	}
	c := make(chan time.Time, 1)
	sc.tseq++
	t := &Timer{C: c, c: c, when: sc.now + d, seq: sc.tseq, fn: fn, active: true, period: period}
	sc.timers = append(sc.timers, t)
	return t
}

func (sc *sched) earliestTimer() *Timer {
	var best *Timer
	for _, t := range sc.timers {
		if !t.active {
			continue
		}
		if best == nil || t.when < best.when || (t.when == best.when && t.seq < best.seq) {
			best = t
		}
	}
	return best
}

func (sc *sched) fire(t *Timer) {
	if t.when > sc.now {
		sc.now = t.when
	}
	if t.period > 0 {
		t.when += t.period
	} else {
		t.active = false
		sc.gcTimers()
	}
	if t.fn != nil {
		t.fn()
		return
	}
	select {
	case t.c <- epoch.Add(sc.now):
	default:
	}
}

func (sc *sched) gcTimers() {
	j := 0
	for _, t := range sc.timers {
		if t.active {
			sc.timers[j] = t
			j++
		}
	}
	sc.timers = sc.timers[:j]
}

// NewTimer mirrors time.NewTimer.
func NewTimer(d time.Duration) *Timer {
	if s == nil {
		rt := time.NewTimer(d)
		return &Timer{rt: rt, C: rt.C}
	}
	return s.addTimer(d, nil, 0)
}

// After mirrors time.After.
func After(d time.Duration) <-chan time.Time { return NewTimer(d).C }

// AfterFunc mirrors time.AfterFunc; fn runs in scheduler context.
func AfterFunc(d time.Duration, fn func()) *Timer {
	if s == nil {
		return &Timer{rt: time.AfterFunc(d, fn)}
	}
	return s.addTimer(d, fn, 0)
}

// NewTicker mirrors time.NewTicker.
func NewTicker(d time.Duration) *Timer {
	if s == nil {
		rk := time.NewTicker(d)
		return &Timer{rk: rk, C: rk.C}
	}
	return s.addTimer(d, nil, d)
}

// Stop mirrors (*time.Timer).Stop.
func (t *Timer) Stop() bool {
	if t.rt != nil {
		return t.rt.Stop()
	}
	if t.rk != nil {
		t.rk.Stop()
		return true
	}
	was := t.active
	t.active = false
	if s != nil {
		s.gcTimers()
	}
	return was
}

// Reset mirrors (*time.Timer).Reset.
func (t *Timer) Reset(d time.Duration) bool {
	if t.rt != nil {
		return t.rt.Reset(d)
	}
	if t.rk != nil {
		t.rk.Reset(d)
		return true
	}
	was := t.active
	t.when = s.now + d
	if !t.active {
		t.active = true
		s.timers = append(s.timers, t)
	}
	return was
}

// Sleep mirrors time.Sleep.
func Sleep(d time.Duration) {
	if s == nil {
		time.Sleep(d)
		return
	}
	Recv(After(d))
}

// ---------------------------------------------------------------------------
// deterministic map iteration

// MapTouch registers k in the per-execution key order.
func MapTouch(k any) {
	if s == nil {
		return
	}
	if _, ok := s.mapOrder[k]; !ok {
		s.mapOrder[k] = len(s.mapOrder)
	}
}

// MapSet performs m[k] = v and registers k.
func MapSet[K comparable, V any](m map[K]V, k K, v V) {
	MapTouch(k)
	m[k] = v
}

// Sprintp stands in for fmt.Sprintf("%p", x) in the code under test: under the scheduler
// it names the object by the order in which objects were first named in this execution
// (stable across replays), otherwise it is the address as before.
func Sprintp(x any) string {
	if s == nil {
		return fmt.Sprintf("%p", x)
	}
	if s.ptrIDs == nil {
		s.ptrIDs = map[any]int{}
	}
	id, ok := s.ptrIDs[x]
	if !ok {
		id = len(s.ptrIDs) + 1
		s.ptrIDs[x] = id
	}
	return fmt.Sprintf("0xv%06d", id)
}

// MapKeys returns the keys of m in a deterministic order.
func MapKeys[K comparable, V any](m map[K]V) []K {
	keys := make([]K, 0, len(m))
	for k := range m {
		keys = append(keys, k)
	}
	if s == nil || len(keys) < 2 {
		return keys
	}
	type ko struct {
		k   K
		o   int
		str string
	}
	kos := make([]ko, len(keys))
	for i, k := range keys {
		o, ok := s.mapOrder[any(k)]
		if !ok {
			o = -1
		}
		kos[i] = ko{k: k, o: o}
		if !ok {
			switch x := any(k).(type) {
			case string:
				kos[i].str = x
			case fmt.Stringer:
				kos[i].str = x.String()
			default:
				kos[i].str = fmt.Sprint(x)
			}
		}
	}
	sort.SliceStable(kos, func(i, j int) bool {
		a, b := kos[i], kos[j]
		if (a.o < 0) != (b.o < 0) {
			return a.o >= 0
		}
		if a.o >= 0 {
			return a.o < b.o
		}
		return a.str < b.str
	})
	for i := range kos {
		keys[i] = kos[i].k
	}
	return keys
}

// waitReal is the pass-through implementation of a select statement.
func (sel *Select) waitReal() int {
	cases := make([]reflect.SelectCase, 0, len(sel.cases)+1)
	for _, c := range sel.cases {
		if c.send {
			cases = append(cases, reflect.SelectCase{Dir: reflect.SelectSend, Chan: c.rch, Send: c.rval})
		} else {
			cases = append(cases, reflect.SelectCase{Dir: reflect.SelectRecv, Chan: c.rch})
		}
	}
	if sel.HasDefault {
		cases = append(cases, reflect.SelectCase{Dir: reflect.SelectDefault})
	}
	i, v, ok := reflect.Select(cases)
	if i == len(sel.cases) {
		return -1
	}
	if !sel.cases[i].send {
		var x any
		if v.IsValid() && ok {
			x = v.Interface()
		}
		sel.cases[i].put(x, ok)
	}
	return i
}

// Threads describes every live thread other than the caller (id:name@operation);
// harnesses use it to observe what is still running at a chosen moment.
func Threads() []string {
	if s == nil {
		return nil
	}
	var out []string
	for _, t := range s.threads {
		if t.exited || t == s.cur {
			continue
		}
		l := "?"
		if t.op != nil {
			l = t.op.label
		}
		out = append(out, fmt.Sprintf("%d:%s@%s", t.id, t.name, l))
	}
	return out
}
