// Package vsync mirrors the parts of package sync used by the code under test,
// routing blocking through vrt when a controlled run is active.
package vsync

import (
	"sync"

	"verif/vrt"
)

type Locker = sync.Locker

// Mutex mirrors sync.Mutex.
type Mutex struct {
	real   sync.Mutex
	locked bool
}

func (m *Mutex) Lock() {
	if !vrt.Active() {
		vrt.Yield("")
		m.real.Lock()
		return
	}
	vrt.Await("Mutex.Lock", func() bool { return !m.locked })
	m.locked = true
}

func (m *Mutex) Unlock() {
	if !vrt.Active() {
		m.real.Unlock()
		return
	}
	if !m.locked {
		panic("sync: unlock of unlocked mutex")
	}
	m.locked = false
}

func (m *Mutex) TryLock() bool {
	if !vrt.Active() {
		return m.real.TryLock()
	}
	vrt.Yield("Mutex.TryLock")
	if m.locked {
		return false
	}
	m.locked = true
	return true
}

// RWMutex mirrors sync.RWMutex.
type RWMutex struct {
	real    sync.RWMutex
	writer  bool
	readers int
}

func (m *RWMutex) Lock() {
	if !vrt.Active() {
		vrt.Yield("")
		m.real.Lock()
		return
	}
	vrt.Await("RWMutex.Lock", func() bool { return !m.writer && m.readers == 0 })
	m.writer = true
}

func (m *RWMutex) Unlock() {
	if !vrt.Active() {
		m.real.Unlock()
		return
	}
	if !m.writer {
		panic("sync: Unlock of unlocked RWMutex")
	}
	m.writer = false
}

func (m *RWMutex) RLock() {
	if !vrt.Active() {
		vrt.Yield("")
		m.real.RLock()
		return
	}
	vrt.Await("RWMutex.RLock", func() bool { return !m.writer })
	m.readers++
}

func (m *RWMutex) RUnlock() {
	if !vrt.Active() {
		m.real.RUnlock()
		return
	}
	if m.readers <= 0 {
		panic("sync: RUnlock of unlocked RWMutex")
	}
	m.readers--
}

func (m *RWMutex) RLocker() Locker { return (*rlocker)(m) }

type rlocker RWMutex

func (r *rlocker) Lock()   { (*RWMutex)(r).RLock() }
func (r *rlocker) Unlock() { (*RWMutex)(r).RUnlock() }

// Once mirrors sync.Once.
type Once struct {
	real  sync.Once
	state int // 0 idle, 1 running, 2 done
}

func (o *Once) Do(f func()) {
	if !vrt.Active() {
		o.real.Do(f)
		return
	}
	vrt.Await("Once.Do", func() bool { return o.state != 1 })
	if o.state == 2 {
		return
	}
	o.state = 1
	defer func() { o.state = 2 }()
	f()
}

// WaitGroup mirrors sync.WaitGroup.
type WaitGroup struct {
	real sync.WaitGroup
	n    int
}

func (w *WaitGroup) Add(d int) {
	if !vrt.Active() {
		w.real.Add(d)
		return
	}
	w.n += d
	if w.n < 0 {
		panic("sync: negative WaitGroup counter")
	}
}
func (w *WaitGroup) Done() { w.Add(-1) }
func (w *WaitGroup) Wait() {
	if !vrt.Active() {
		w.real.Wait()
		return
	}
	vrt.Await("WaitGroup.Wait", func() bool { return w.n == 0 })
}

// Pool mirrors sync.Pool deterministically (LIFO) under control.
type Pool struct {
	New        func() any
	real       sync.Pool
	items      []any
	registered bool
}

func (p *Pool) register() {
	if !p.registered {
		p.registered = true
		vrt.RegisterReset(func() { p.items = nil })
	}
}

func (p *Pool) Get() any {
	if !vrt.Active() {
		if x := p.real.Get(); x != nil {
			return x
		}
		if p.New != nil {
			return p.New()
		}
		return nil
	}
	p.register()
	if n := len(p.items); n > 0 {
		x := p.items[n-1]
		p.items = p.items[:n-1]
		return x
	}
	if p.New != nil {
		return p.New()
	}
	return nil
}

func (p *Pool) Put(x any) {
	if !vrt.Active() {
		p.real.Put(x)
		return
	}
	p.register()
	p.items = append(p.items, x)
}

// ResetPools is called between executions by harnesses that want a cold pool.
func (p *Pool) Reset() { p.items = nil }

// Map is the real sync.Map: it is internally synchronised and never blocks, so
// under the cooperative scheduler it needs no scheduling point of its own.
type Map = sync.Map

// Cond mirrors sync.Cond.
type Cond struct {
	L    Locker
	real *sync.Cond
	gen  int // incremented by Broadcast
	sig  int // pending Signal tokens
}

// NewCond mirrors sync.NewCond.
func NewCond(l Locker) *Cond { return &Cond{L: l, real: sync.NewCond(l)} }

func (c *Cond) Wait() {
	if !vrt.Active() {
		c.real.Wait()
		return
	}
	g := c.gen
	c.L.Unlock()
	vrt.Await("Cond.Wait", func() bool { return c.gen != g || c.sig > 0 })
	if c.gen == g {
		c.sig--
	}
	c.L.Lock()
}

func (c *Cond) Signal() {
	if !vrt.Active() {
		c.real.Signal()
		return
	}
	c.sig++
}

func (c *Cond) Broadcast() {
	if !vrt.Active() {
		c.real.Broadcast()
		return
	}
	c.gen++
	c.sig = 0
}

// OnceFunc mirrors sync.OnceFunc.
func OnceFunc(f func()) func() {
	var o Once
	return func() { o.Do(f) }
}

// OnceValue mirrors sync.OnceValue.
func OnceValue[T any](f func() T) func() T {
	var o Once
	var v T
	return func() T {
		o.Do(func() { v = f() })
		return v
	}
}

// OnceValues mirrors sync.OnceValues.
func OnceValues[T1, T2 any](f func() (T1, T2)) func() (T1, T2) {
	var o Once
	var a T1
	var b T2
	return func() (T1, T2) {
		o.Do(func() { a, b = f() })
		return a, b
	}
}
