#!/bin/sh
# Builds the verification framework from files on disk only (offline).
set -e
cd /verif
export GOFLAGS=-mod=mod GOPROXY=off GOSUMDB=off GOTOOLCHAIN=local
mkdir -p bin evidence
go build -o bin/vcheck ./cmd/vcheck
go build -o bin/vinstr ./cmd/vinstr
# C10, C11 and C15 build a second worker for GOARCH=386: compile the standard library for it now
GOARCH=386 CGO_ENABLED=0 go build -o /dev/null ./cmd/vinstr
# warm the build cache with one instrumented worker build and self-test it
./bin/vcheck SELFTEST --tier quick
# the repository's own tests must pass on the rewritten sources (validates the rewriter)
./bin/vcheck CONFORMANCE --tier quick
echo "setup ok"
